"""C04 -- pixel algorithms equal the per-pixel loop, and nothing else is modified (DESIGN.md section 5, C04)

One op line = one algorithm call on views over harness-owned buffers (canary margins, row padding, sub-views, x-stepped and
transposed views, bit offsets); the observation is the frame check of the whole destination buffer + the destination view's pixels."""
import json, concurrent.futures
import vlib

ORGS = ["rgb8", "rgb8p", "rgb565", "gray1", "gray4", "rgb222", "rgb32f"]
RANGE = {"rgb8": 1 << 24, "rgb8p": 1 << 24, "rgb565": 1 << 16, "gray1": 2, "gray4": 16, "rgb222": 64, "rgb32f": 512, "gray8": 256, "bgr8": 1 << 24}
PADS = {"rgb8": [0, 1, 2], "rgb8p": [0, 1, 3], "rgb565": [0, 2], "gray1": [0, 1, 3, 5], "gray4": [0, 1, 4, 5], "rgb222": [0, 1, 2, 7], "rgb32f": [0, 4], "gray8": [0, 1], "bgr8": [0, 3]}
BITS = {"gray1", "gray4", "rgb222"}
KINDS = ["full", "sub", "xstep", "trans", "flipx", "flipy"]
PTRK = ("full", "sub", "flipy")        # view kinds whose x iterator is the underlying pointer / planar pointer iterator
OVK = ("sub", "flipx", "flipy")
CROSS = ["rgb8>rgb8p", "rgb8p>rgb8", "rgb8>bgr8", "gray8>rgb8"]
DIMS_Q = [(0, 0), (1, 1), (3, 2), (5, 1), (1, 4), (4, 3), (0, 3), (2, 0), (2, 2), (5, 5)]
BUILDS = list(range(7)) + [9]

def opar(r, org, kind):
    o = {"full": 0, "sub": r.choice([0, 1, 3, 4, 5, 7, 8]), "xstep": r.below(2), "trans": 0, "flipx": 0, "flipy": 0}[kind]
    if org in BITS: o += 9 * r.below(8)          # first pixel at an odd bit offset of the buffer
    return o

def vals(r, org, n, special=False):
    R = RANGE[org]
    if org == "rgb32f" and special: return [r.choice([0, 1, 8, 9, 64, 73, 7, 56, 511, 2]) for _ in range(n)]   # +-0 and NaN combinations
    return [r.below(R) for _ in range(n)]

PF = [0]
PFORG = {}      # per organisation: bit 3 = a whole-view copy run is a block move (memmove), bit 4 = a row copy run is a block move (observed on probe ops)
SHIFTS = {"rgb8": [0, 8, 16], "rgb8p": [0, 8, 16], "bgr8": [0, 8, 16], "rgb565": [0, 5, 11], "rgb222": [0, 2, 4], "gray1": [0], "gray4": [0], "gray8": [0]}
def one_channel_diff(org, v, c):
    if org == "rgb32f":
        sh = 3 * (c % 3); idx = (v >> sh) & 7
        return (v & ~(7 << sh)) | ((3 if idx == 2 else 2) << sh)
    sh = SHIFTS[org][c % len(SHIFTS[org])]
    return v ^ (1 << sh)

def line(alg, org, sk, dk, w, h, so, do, spad, dpad, arg, sv, dv, s2v=None):
    s = "%s %s %s %s %d %d %d %d %d %d %d %d | %s | %s" % (alg, org, sk, dk, w, h, so, do, spad, dpad, arg, PF[0] + (PFORG.get(org, 0) if alg == "copyov" else 0), " ".join(map(str, sv)), " ".join(map(str, dv)))
    if s2v is not None: s += " | " + " ".join(map(str, s2v))
    return s

def gen_ops(ctx):
    r, th, ops = ctx.rng, ctx.thorough(), []
    dims_all = [(w, h) for w in range(0, 13 if th else 6) for h in range(0, 13 if th else 6)]
    for org in ORGS:
        sorg = dorg = org
        R = RANGE[org]
        for sk in KINDS:
            for dk in KINDS:
                dims = list(DIMS_Q) + [r.choice(dims_all) for _ in range(20 if th else 3)]
                for di, (w, h) in enumerate(dims):
                    n = w * h
                    for rep in range(1):
                        so, do = opar(r, org, sk), opar(r, org, dk)
                        spad, dpad = r.choice(PADS[org]), r.choice(PADS[org])
                        sv, dv = vals(r, org, n), vals(r, org, n)
                        A = lambda alg, arg=0, sv_=None, dv_=None, s2=None: ops.append(line(alg, org, sk, dk, w, h, so, do, spad, dpad, arg, sv if sv_ is None else sv_, dv if dv_ is None else dv_, s2))
                        A("copy"); A("cconv"); A("fill", r.below(R)); A("generate", r.below(R)); A("foreach", 1 + r.below(R - 1)); A("foreachpos", 1 + r.below(R - 1))
                        A("tr1", r.below(R)); A("trpos", r.below(R)); A("tr2", r.below(R), s2=vals(r, org, n))
                        # uninitialized_fill / uninitialized_copy / default_construct / destruct _pixels (planar: the per-plane overloads need
                        # planar_pixel_iterator itself, not a step adaptor)
                        if (org != "rgb8p" or dk in PTRK) and (th or di % 2 == 1):
                            A("ufill", r.below(R)); A("dcons"); A("destruct")
                            if org != "rgb8p" or sk in PTRK: A("ucopy")
                        if org in ("rgb8", "rgb8p"):
                            # value / functor result of a compatible pixel type with ANOTHER channel order (bgr8): channels pair by colour
                            A("fillx", r.below(R)); A("genx", r.below(R)); A("tr1x", r.below(R))
                        # equal: identical content, and a single differing pixel at every position (quick: a few positions)
                        ev = vals(r, org, n, special=True)
                        if org == "rgb32f": ev = [v if v % 8 != 7 and (v >> 3) % 8 != 7 and (v >> 6) % 8 != 7 else 2 for v in ev]
                        A("equal", 0, ev, list(ev))
                        pos = list(range(n)) if (th or n <= 4) else sorted({0, n - 1, r.below(n), r.below(n)})
                        for j, k in enumerate(pos):
                            # the differing pixel differs in exactly ONE channel (each channel in turn): a comparison that skips a channel / plane is caught
                            dv2 = list(ev); dv2[k] = one_channel_diff(org, ev[k], j + r.below(3))
                            A("equal", 0, ev, dv2)
                        if org == "rgb32f" and n:
                            # +0.0 against -0.0 compares equal; NaN compares unequal to itself
                            A("equal", 0, [0] * n, [1] * n); A("equal", 0, [9] * n, [8] * n); A("equal", 0, [7] + [0] * (n - 1), [7] + [0] * (n - 1))
    # copy_pixels between two views of ONE underlying image (overlapping in either direction, or disjoint): 1-D traversable whole rows
    # (sk = dk = full), or sub-views at (sx, sy) / (dx, dy) of a (w+2) x (h+2) image, plain / flipped left-right / flipped up-down
    for org in ORGS:
        modes = [("full", "full")] * 3 + [(a, b) for a in OVK for b in OVK]
        for (sk, dk) in modes:
            dims = [(1, 3), (3, 1), (2, 2), (3, 3), (4, 2), (1, 1), (0, 2), (2, 0)] + [(1 + r.below(5), 1 + r.below(5)) for _ in range(12 if th else 3)]
            for (w, h) in dims:
                for rep in range(4 if th else 2):
                    arg = r.below(81)
                    if rep == 0: arg = r.choice([9, 1, 27, 3, 9 + 27, 1 + 3, 27 + 1, 9 + 3])      # shifts by one pixel / one row in each direction
                    so = 9 * r.below(8) if org in BITS else 0
                    spad = r.choice(PADS[org])
                    W0, H0 = (w if sk == "full" else w + 2), h + 2
                    ops.append(line("copyov", org, sk, dk, w, h, so, 0, spad, 0, arg, vals(r, org, W0 * H0), []))
    # image operator== / != : two gil::image objects, every pair of row alignments (padded and contiguous rows), equal content, one pixel differing in
    # one channel, different dimensions
    for org in ORGS + ["rgb8>rgb8p", "rgb8p>rgb8", "rgb8>bgr8"]:
        so_, do_ = (org.split(">") + [org])[:2] if ">" in org else (org, org)
        als = [0, 1, 2, 4, 8, 16, 32]
        for (w, h) in DIMS_Q + [r.choice(dims_all) for _ in range(30 if th else 4)]:
            n = w * h
            for _ in range(3 if th else 2):
                a1, a2 = r.choice(als), r.choice(als)
                ev = vals(r, so_, n, special=True)
                if so_ == "rgb32f": ev = [v if v % 8 != 7 and (v >> 3) % 8 != 7 and (v >> 6) % 8 != 7 else 2 for v in ev]
                ops.append(line("imgeq", org, "full", "full", w, h, a1, a2, 0, 0, 0, ev, list(ev)))
                for c in range(3 if n else 0):
                    dv2 = list(ev); k = r.below(n); dv2[k] = one_channel_diff(do_, dv2[k], c)
                    ops.append(line("imgeq", org, "full", "full", w, h, a1, a2, 0, 0, 0, ev, dv2))
                ops.append(line("imgeq", org, "full", "full", w, h, a1, a2, 0, 0, 1, ev, vals(r, do_, (w + 1) * h)))
                # same pixel COUNT, other shape (h x w) with the same pixel sequence: equal only if the image is square
                ops.append(line("imgeq", org, "full", "full", w, h, a1, a2, 0, 0, 2, ev, list(ev)))
    for cross in CROSS:
        so_, do_ = cross.split(">")
        for sk in (["full", "sub"] if not th else KINDS):
            for dk in (["full", "sub"] if not th else KINDS):
                for (w, h) in DIMS_Q + [r.choice(dims_all) for _ in range(20 if th else 2)]:
                    n = w * h
                    so, do = opar(r, so_, sk), opar(r, do_, dk)
                    spad, dpad = r.choice(PADS[so_]), r.choice(PADS[do_])
                    sv, dv = vals(r, so_, n), vals(r, do_, n)
                    ops.append(line("cconv", cross, sk, dk, w, h, so, do, spad, dpad, 0, sv, dv))
                    if so_ != "gray8":
                        ops.append(line("copy", cross, sk, dk, w, h, so, do, spad, dpad, 0, sv, dv))
                        if (so_ != "rgb8p" or sk in PTRK) and (do_ != "rgb8p" or dk in PTRK):
                            ops.append(line("ucopy", cross, sk, dk, w, h, so, do, spad, dpad, 0, sv, dv))
                        ops.append(line("equal", cross, sk, dk, w, h, so, do, spad, dpad, 0, sv, list(sv)))
                        for c in range(3 if n else 0):
                            dv2 = list(sv); k = r.below(n); dv2[k] = one_channel_diff(do_, dv2[k], c)
                            ops.append(line("equal", cross, sk, dk, w, h, so, do, spad, dpad, 0, sv, dv2))
    return list(dict.fromkeys(ops))

def nontrivial(op):
    w = op.split()
    return int(w[4]) * int(w[5]) >= 2 and not (w[2] == "full" and w[3] == "full" and w[8] == "0" and w[9] == "0")

ASSUME = [
    "cell level model: a pixel store through a reference changes exactly that pixel's channels (C08 for packed / bit-aligned channels); checked here on the real buffers by the frame mask",
    "std::copy / std::fill / std::equal / std::generate / memcmp are modelled by their specifications; for source and destination inside one buffer the model distinguishes block moves (memmove) from element loops per organisation and iterator kind (tables in Driver/C04.lean, confirmed by the copyov ops); the Spec demands the loop's result only where std::copy's precondition holds (no destination pixel written earlier is read later)",
    "view dimensions agree (the algorithms BOOST_ASSERT it); pixel steps and row strides fit std::ptrdiff_t",
]

def degenerate_keeps_dims(ctx):
    """source-selected model variant: does image::allocate_ build a view of the requested dimensions when no byte is needed?"""
    import os, re
    try: text = open(os.path.join(ctx.include, "boost/gil/image.hpp")).read()
    except OSError: return False
    m = re.search(r"void allocate_\(point_t const& dimensions, std::false_type\)(.*?)_memory\s*=\s*_alloc\.allocate", text, re.S)
    return bool(m and "create_view" in m.group(1))

def compile_all(ctx):
    pb, _ = vlib.compile_harness(ctx, "harness/C04/probe_fill_planar_step.cpp", name="C04_probe_fill", sanitize=False, opt="-O0")
    PF[0] = (1 if pb else 0) + (2 if degenerate_keeps_dims(ctx) else 0)
    ctx.cov["source_variant_degenerate_image_keeps_dimensions"] = bool(PF[0] & 2)
    ctx.cov["probe_fill_planar_step_compiles"] = bool(pb)
    pe, _ = vlib.compile_harness(ctx, "harness/C04/probe_equal_planar.cpp", name="C04_probe_equal", sanitize=False, opt="-O0")
    ctx.cov["probe_equal_planar_compiles"] = bool(pe)
    extra = (["C04_PLANAR_STEP_FILL"] if pb else []) + ([] if pe else ["C04_NO_PLANAR_EQUAL"])
    def one(b): return b, vlib.compile_harness(ctx, "harness/C04/main.cpp", name="C04_org%d" % b, defines=["C04_ORG=%d" % b] + extra)
    with concurrent.futures.ThreadPoolExecutor(max_workers=min(len(BUILDS), ctx.jobs)) as ex: bins = dict(ex.map(one, BUILDS))
    # source-selected model variant (flag bit 2, read by the model only): does uninitialized_copy_pixels store through proxy references of step
    # iterators over bit-aligned pixels?  (finding C04-uninitialized-copy-bit-aligned-step-views; observed on one probe op, the Spec still judges every op)
    import subprocess
    stores = False
    if bins.get(4, (None, ""))[0]:
        try:
            out = subprocess.run([bins[4][0]], input="ucopy gray4 full xstep 1 1 0 0 0 0 0 %d | 9 | 6\n" % PF[0], capture_output=True, text=True, timeout=60).stdout
            stores = out.strip().endswith("; 9")
        except Exception: stores = False
    if stores: PF[0] += 4
    # overlapping copies outside std::copy's precondition (a destination pixel written earlier is read later) are not promised by the property; WHICH
    # of the two possible results the code gives (block move = original source pixels, element loop = smear) depends on the iterator types and on
    # libstdc++'s trivially-copyable shortcut: observed once per organisation and path on a probe op, all other overlapping ops must agree with it
    for b, org in enumerate(ORGS):
        PFORG[org] = 0
        if not bins.get(b, (None, ""))[0]: continue
        try:
            probes = "copyov %s full full 1 3 0 0 0 0 27 %d | 1 0 1 0 0 |\ncopyov %s sub sub 3 1 0 0 0 0 9 %d | 1 0 0 1 1 0 0 1 0 1 1 1 0 1 0 |\n" % (org, PF[0], org, PF[0])
            out = subprocess.run([bins[b][0]], input=probes, capture_output=True, text=True, timeout=60).stdout.splitlines()
            if len(out) == 2:
                if out[0].split(";")[-1].split() == "1 1 0 1 0".split(): PFORG[org] += 8
                if out[1].split(";")[-1].split()[:5] == "1 1 0 0 1".split(): PFORG[org] += 16
        except Exception: pass
    ctx.cov["observed_block_move_flags"] = dict(PFORG)
    ctx.cov["source_variant_uninitialized_copy_stores_through_proxies"] = stores
    return bins

def run(ctx, ops=None):
    obligations, discharged = vlib.standard_proof_steps(ctx, extra_props=["GilVerif.Props.C04Bits"])
    bins = compile_all(ctx)
    samples, distinct = [], 0
    bad = [(b, e) for b, (p, e) in bins.items() if p is None]
    for b, e in bad:
        ctx.broken.append(("harness", "compile org %s" % b, e[-1500:])); ctx.log("harness does not compile (org %s):\n%s" % (b, e[-1500:]))
    if not bad:
        import re
        ops = [re.sub(r"^((?:\S+ ){11})\d+", r"\g<1>%d" % (PF[0] + (PFORG.get(o.split()[1], 0) if o.startswith("copyov ") else 0)), o) for o in ops] if ops else gen_ops(ctx)
        groups = {}
        for o in ops:
            org = o.split()[1]
            groups.setdefault(9 if ">" in org else ORGS.index(org) if org in ORGS else -1, []).append(o)
        dist = {}
        for b, lines in sorted(groups.items()):
            if b not in bins: ctx.broken.append(("harness", "no build for %s" % lines[0][:40], "")); continue
            impl, model = vlib.correspond(ctx, bins[b][0], "drv_C04", lines, label=str(b))
            dist[lines[0].split()[1] if b != 9 else "cross"] = len(lines)
            i = len(lines) // 2
            samples.append({"op": lines[i][:300], "impl": impl[i][:300], "model": model[i][:300]})
        distinct = len({o for o in ops if nontrivial(o)})
        algs = {}
        for o in ops: algs[o.split()[0]] = algs.get(o.split()[0], 0) + 1
        kinds = {}
        for o in ops:
            w = o.split(); kinds[w[2] + ">" + w[3]] = kinds.get(w[2] + ">" + w[3], 0) + 1
        ctx.cov["input_distribution"] = {"per_org": dist, "per_algorithm": algs, "per_kind_pair": kinds}
    return vlib.finish(ctx, "proof", obligations, discharged,
        rule="one op line = one algorithm call; organisations rgb8 interleaved / rgb8 planar / rgb565 packed / gray1, gray4, rgb222 bit-aligned (first pixel at every bit offset) / rgb32f, "
             "plus the cross pairs rgb8<->rgb8 planar, rgb8->bgr8, gray8->rgb8; every ordered pair of view kinds {full, sub-view, x-stepped (1-D traversable and not), transposed, flipped left-right (negative x step), flipped up-down (negative row step)} with row padding; "
             "copy_pixels between overlapping / disjoint views of one image (copyov), uninitialized_fill / uninitialized_copy / default_construct / destruct _pixels; sizes 0..5 (quick) / 0..12 (thorough) incl. empty; equal_pixels with identical content and a single differing pixel at positions of the view, +-0.0 and NaN for float; "
             "non-trivial = at least two pixels and not (contiguous unpadded full view on both sides); distinct op lines counted",
        samples=samples, distinct_nontrivial=distinct, assumptions=ASSUME, trusted_base=vlib.TRUSTED_BASE,
        extra={"input_distribution": ctx.cov.get("input_distribution")}, exhaustive=False)

def replay(ctx, path):
    rp = json.load(open(path))
    ops = rp.get("op_lines") or []
    if not ops: return run(ctx)
    return run(ctx, ops=ops)
