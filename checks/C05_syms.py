"""C05 table extractor ("translator for tables"): reads, on every run, from the headers of the tree under test
   * the colour spaces  `using X_t = mp11::mp_list<...>`            (rgb.hpp rgba.hpp cmyk.hpp gray.hpp)
   * the layouts        `using X_layout_t = layout<cs_t[, mp11::mp_list_c<int, ...>]>` and devicen_layout_t<N>
   * the index pairs of homogeneous_color_base<E,L,N> (color_base.hpp): for every N the (member k, index j) of
     the converting constructors `vK_(gil::at_c<mapping_transform<Layout, L2, J>::value>(c))`, the planar pointer /
     offset constructors `vK_(&semantic_at_c<J>(*p))`, `vK_(*memunit_advanced(semantic_at_c<J>(ptr), diff))`,
     `deref()`'s argument list, `at(integral_constant<int,K>) { return vJ_; }`, `at_c_dynamic`
   and writes lean/GilVerif/Gen/C05.lean.  Anything it cannot find raises ExtractError: the tie is reported broken.
"""
import re, os

NAMESPACE = "GilVerif.Gen.C05"
class ExtractError(Exception): pass

SPACE_FILES = ["rgb.hpp", "rgba.hpp", "cmyk.hpp", "gray.hpp"]

def read(root, rel):
    try: return open(os.path.join(root, "boost/gil", rel)).read()
    except OSError as ex: raise ExtractError("cannot read %s: %s" % (rel, ex))

def strip_comments(s):
    s = re.sub(r"/\*.*?\*/", "", s, flags=re.S)
    return re.sub(r"//[^\n]*", "", s)

def extract_layouts(root):
    spaces, layouts = {}, []
    for f in SPACE_FILES:
        src = strip_comments(read(root, f))
        for m in re.finditer(r"using\s+(\w+)_t\s*=\s*mp11::mp_list<([^<>]*)>\s*;", src):
            spaces[m.group(1)] = [c.strip()[:-2] if c.strip().endswith("_t") else c.strip() for c in m.group(2).split(",")]
    for f in SPACE_FILES:
        src = strip_comments(read(root, f))
        for m in re.finditer(r"using\s+(\w+)_layout_t\s*=\s*layout<\s*(\w+)_t\s*(?:,\s*mp11::mp_list_c<\s*int\s*,([^<>]*)>\s*)?>\s*;", src):
            name, cs, mp = m.group(1), m.group(2), m.group(3)
            if cs not in spaces: raise ExtractError("layout %s over unknown colour space %s" % (name, cs))
            mapping = [int(x) for x in mp.split(",")] if mp else list(range(len(spaces[cs])))
            layouts.append((name, cs, spaces[cs], mapping))
    dev = strip_comments(read(root, "device_n.hpp"))
    if not re.search(r"struct\s+devicen_layout_t\s*:\s*layout<\s*typename\s+devicen_t<N>::type\s*>", dev):
        raise ExtractError("devicen_layout_t is no longer layout<devicen_t<N>::type>")
    m = re.search(r"\(\s*(\d+)\s*<=\s*N\s*&&\s*N\s*<=\s*(\d+)\s*\)", dev)
    if not m: raise ExtractError("devicen_t: range of N not found")
    if not re.search(r"using\s+type\s*=\s*mp11::mp_transform<\s*color_t\s*,\s*mp11::mp_iota_c<N>\s*>", dev):
        raise ExtractError("devicen_t<N>::type is no longer N unnamed colours")
    for n in range(int(m.group(1)), int(m.group(2)) + 1):
        layouts.append(("devicen%d" % n, "devicen%d" % n, ["devicen_color%d" % i for i in range(n)], list(range(n))))
    if not layouts: raise ExtractError("no layouts found")
    return layouts

def struct_block(src, n):
    m = re.search(r"struct\s+homogeneous_color_base<\s*Element\s*,\s*Layout\s*,\s*%d\s*>" % n, src)
    if not m: raise ExtractError("homogeneous_color_base<Element, Layout, %d> not found" % n)
    i = src.index("{", m.end()); depth = 0
    for j in range(i, len(src)):
        if src[j] == "{": depth += 1
        elif src[j] == "}":
            depth -= 1
            if depth == 0: return src[i:j + 1]
    raise ExtractError("unbalanced braces in homogeneous_color_base<.., %d>" % n)

def extract_ctor_table(root):
    src = strip_comments(read(root, "color_base.hpp"))
    table = []
    for n in range(1, 6):
        blk = struct_block(src, n)
        # member initialisers   : v0_(expr) , v1_(expr) ...   (balanced parentheses)
        for m in re.finditer(r"(?<![\w.])v(\d)_\(", blk):
            k = int(m.group(1)); i = m.end(); depth = 1
            while depth and i < len(blk):
                depth += {"(": 1, ")": -1}.get(blk[i], 0); i += 1
            e = blk[m.end():i - 1].strip()
            if "mapping_transform" in e or "gil::at_c<" in e: kind = "conv"
            elif "&semantic_at_c" in e: kind = "ptr"
            elif "memunit_advanced" in e: kind = "offset"
            elif re.fullmatch(r"v\d?", e):             # value constructors v0_(v0) / v0_(v)
                if e != "v": table.append((n, "value", k, int(e[1:])))
                continue
            else: raise ExtractError("unrecognised member initialiser v%d_(%s) for N=%d" % (k, e, n))
            idx = re.search(r"(\d)\s*>", e)
            if not idx: raise ExtractError("no index in initialiser v%d_(%s)" % (k, e))
            table.append((n, kind, k, int(idx.group(1))))
        for m in re.finditer(r"\bRef\((.*?)\)\s*;", blk, flags=re.S):
            for i, j in enumerate(re.findall(r"semantic_at_c<\s*(\d)\s*>", m.group(1))): table.append((n, "deref", i, int(j)))
        for m in re.finditer(r"auto\s+at\(std::integral_constant<int,\s*(\d)>\)(\s*const)?\s*->[^{;]*\{\s*return\s+v(\d)_\s*;\s*\}", blk, flags=re.S):
            table.append((n, "at_const" if m.group(2) else "at", int(m.group(1)), int(m.group(3))))
        md = re.search(r"at_c_dynamic\(std::size_t i\)\s*const\s*->\s*Element\s*\{", blk)
        if md:
            i = md.end() - 1; depth = 0
            for j in range(i, len(blk)):
                if blk[j] == "{": depth += 1
                elif blk[j] == "}":
                    depth -= 1
                    if depth == 0: break
            body = blk[i:j + 1]
            for a, b in re.findall(r"case\s+(\d)\s*:\s*return\s+v(\d)_\s*;", body) + re.findall(r"i\s*==\s*(\d)\s*\)\s*return\s+v(\d)_\s*;", body):
                table.append((n, "dyn", int(a), int(b)))
            last = re.findall(r"return\s+v(\d)_\s*;", body)
            if not last: raise ExtractError("at_c_dynamic without return for N=%d" % n)
            table.append((n, "dyn_default", n - 1, int(last[-1])))
    if not any(k == "conv" for _, k, _, _ in table): raise ExtractError("no converting constructor initialisers found")
    return table

def lean_str_list(xs): return "[" + ", ".join('"%s"' % x for x in xs) + "]"
def lean_nat_list(xs): return "[" + ", ".join(str(x) for x in xs) + "]"

def render(layouts, table):
    out = ["-- GENERATED by checks/C05_syms.py from rgb.hpp rgba.hpp cmyk.hpp gray.hpp device_n.hpp color_base.hpp -- do not edit.",
           "-- Regenerated by every run of the check; the table theorems in Props/C05.lean are stated over these defs.",
           "namespace %s\n" % NAMESPACE,
           "/-- provided layouts: (name, colour names of the colour space in colour-space order, channel_mapping)\n"
           "    channel_mapping[s] = index in memory order (at_c) of the s-th colour of the colour space -/",
           "def layouts : List (String × List String × List Nat) := ["]
    out.append(",\n".join('  ("%s", %s, %s)' % (name, lean_str_list(cols), lean_nat_list(mp)) for name, cs, cols, mp in layouts))
    out.append("]\n")
    out.append("/-- the same table with names as character codes (kernel-friendly): (letters of the layout name,\n"
               "    colour names as character codes, channel_mapping) -/")
    out.append("def layoutCodes : List (List Nat × List (List Nat) × List Nat) := [")
    rows = ["  (%s, [%s], %s)" % (lean_nat_list([ord(c) for c in name]), ", ".join(lean_nat_list([ord(c) for c in col]) for col in cols), lean_nat_list(mp))
            for name, cs, cols, mp in layouts]
    out.append(",\n".join(rows))
    out.append("]\n")
    out.append("/-- homogeneous_color_base<E,L,N>: (N, kind, member or position k, index j) in source order.\n"
               "    kinds: conv = converting constructors (index = K of mapping_transform<Layout,L2,K>), ptr / offset = planar\n"
               "    pointer and offset constructors (semantic_at_c<J>), deref = arguments of deref(), at / at_const = at(integral_constant<K>)\n"
               "    returning vJ_, dyn / dyn_default = at_c_dynamic, value = vK_(vJ) of the value constructors -/")
    out.append("def ctorTable : List (Nat × String × Nat × Nat) := [")
    out.append(",\n".join('  (%d, "%s", %d, %d)' % e for e in table))
    out.append("]\n")
    out.append("/-- kinds as numbers (kernel-friendly): conv 0, ptr 1, offset 2, deref 3, at 4, at_const 5, dyn 6, dyn_default 7, value 8 -/")
    kinds = {"conv": 0, "ptr": 1, "offset": 2, "deref": 3, "at": 4, "at_const": 5, "dyn": 6, "dyn_default": 7, "value": 8}
    out.append("def ctorCodes : List (Nat × Nat × Nat × Nat) := [")
    out.append(",\n".join("  (%d, %d, %d, %d)" % (n, kinds[k], a, b) for n, k, a, b in table))
    out.append("]\n")
    out.append("end %s" % NAMESPACE)
    return "\n".join(out) + "\n"

def generate(include_root, out_path):
    """returns (ok, [(name, error)], changed)"""
    try:
        body = render(extract_layouts(include_root), extract_ctor_table(include_root))
    except ExtractError as ex:
        return False, [("tables", str(ex))], False
    old = None
    try: old = open(out_path).read()
    except OSError: pass
    if old != body:
        os.makedirs(os.path.dirname(out_path), exist_ok=True)
        with open(out_path, "w") as f: f.write(body)
    return True, [], old != body

if __name__ == "__main__":
    import sys
    root = sys.argv[1] if len(sys.argv) > 1 else "/repo/include"
    print(render(extract_layouts(root), extract_ctor_table(root)))
