"""C05 -- pixel operations pair channels by colour, independent of memory layout (DESIGN.md section 5, C05)

Flow: table extractor (layouts of rgb/rgba/cmyk/gray/device_n.hpp, index pairs of homogeneous_color_base) ->
lean/GilVerif/Gen/C05.lean -> lake build Props.C05 + drv_C05 -> axiom audit -> 32 harness binaries (harness/C05/main.cpp
compiled in parts, in parallel, from the tree under test) -> every ordered pair of provided layouts x pixel models x
channel types -> model vs implementation diff and Spec judge -> verdict, evidence.
"""
import os, json, copy, concurrent.futures
import vlib, C05_syms

TYPES = ["u8", "u16", "f32"]
TMAX = {"u8": 250, "u16": 60000, "f32": 100000}
SIZESETS = {"rgb": {"p565": [5, 6, 5], "p332": [3, 3, 2]}, "rgba": {"p4444": [4, 4, 4, 4], "p5551": [5, 5, 5, 1]},
            "gray": {"g4": [4]}, "cmyk": {"c4444": [4, 4, 4, 4]}}
PSEL = {"p565": 0, "p332": 0, "g4": 0, "c4444": 0, "p4444": 1, "p5551": 2}

BINARIES = ([("h1_%d" % t, ("PART=1", "TSEL=%d" % t)) for t in range(3)] + [("h2_%d" % t, ("PART=2", "TSEL=%d" % t)) for t in range(3)] +
            [("p3_%d" % q, ("PART=3", "PSEL=%d" % q)) for q in range(3)] +
            [("a4_%d" % t, ("PART=4", "TSEL=%d" % t)) for t in range(3)] + [("a5_%d" % t, ("PART=5", "TSEL=%d" % t)) for t in range(3)] +
            [("s6", ("PART=6",)), ("s7", ("PART=7",))] +
            # alg3 (three layouts, aliased arguments): one binary per channel type; rgba additionally split by the third layout
            [("a8_%d" % t, ("PART=8", "TSEL=%d" % t)) for t in range(3)] +
            [("a9_%d_%d" % (t, k), ("PART=9", "TSEL=%d" % t, "L3SEL=%d" % k)) for t in range(3) for k in range(4)])
RGBA_ORDER = ["rgba", "bgra", "argb", "abgr"]          # order of rgba_ls in harness/C05/main.cpp (L3SEL)
# packed pixels whose channels do not fill the bit field: name -> (bits per colour, carrier bits)
SPARESETS = {"rgb": {"s432": ([4, 3, 2], 16), "s565w": ([5, 6, 5], 32), "s222": ([2, 2, 2], 8)}, "rgba": {"s5551w": ([5, 5, 5, 1], 32)}, "gray": {"sg3": ([3], 8)}}

def route(op):
    w = op.split(); cs, t = w[1], w[2]
    if w[0] == "alg3":
        if cs == "rgba": return "a9_%d_%d" % (TYPES.index(t), RGBA_ORDER.index(w[5]) if w[5] in RGBA_ORDER else 0)
        return "a8_%d" % TYPES.index(t)
    if w[0] == "alg": return ("a5_%d" if cs == "rgba" else "a4_%d") % TYPES.index(t)
    if w[0] == "spare": return "s7" if cs == "rgba" else "s6"
    if t in TYPES: return ("h2_%d" if cs == "rgba" else "h1_%d") % TYPES.index(t)
    return "p3_%d" % PSEL[t]

def regen_tables(ctx):
    rel = "GilVerif/Gen/C05.lean"; out = os.path.join(ctx.lean, rel)
    ok, errs, changed = C05_syms.generate(ctx.include, out)
    ctx.cov["translator_symbols"] = {"total": 2, "found": 2 if ok else 0}
    if not ok:
        for name, err in errs:
            ctx.broken.append(("translator", name, err)); ctx.log("table extractor: %s" % err)
        import subprocess
        r = subprocess.run(["git", "-C", vlib.VERIF, "show", "HEAD:lean/" + rel], capture_output=True)
        if r.returncode == 0: open(out, "wb").write(r.stdout)
    elif changed:
        ctx.log("table extractor: %s regenerated (differs from the previous generated file)" % rel)
        ctx.notes.append("generated file %s changed on this run" % rel)
    return ok

def distinct_vals(r, n, hi, lo=1):
    vals = set()
    while len(vals) < n: vals.add(r.range(lo, hi))
    vals = list(vals); r.shuffle(vals); return vals

def gen_ops(ctx):
    r, th, ops = ctx.rng, ctx.thorough(), []
    try: table = C05_syms.extract_layouts(ctx.include)
    except C05_syms.ExtractError:
        table = C05_syms.extract_layouts("/repo/include")
    by_cs = {}
    for name, cs, cols, mp in table: by_cs.setdefault(cs, []).append((name, mp))
    reps = 10 if th else 3
    def ident(mp): return mp == list(range(len(mp)))
    def lst(xs): return " ".join(str(x) for x in xs)
    def dst_values(v, ms, md, hi, lo=1, widths=None):
        """initial destination contents: random distinct / colour-equal to the source / all the same"""
        n = len(v); k = r.below(4)
        if k == 0:
            w = [0] * n
            for s in range(n): w[md[s]] = v[ms[s]]
            if widths is None or all(w[i] < (1 << widths[i]) for i in range(n)): return w
        if k == 1: return [lo] * n
        if widths is not None: return [r.below(1 << widths[i]) for i in range(n)]
        return distinct_vals(r, n, hi, lo)
    for cs, ls in by_cs.items():
        if cs == "devicen1": continue               # one unnamed channel: same code paths as gray
        n = len(ls[0][1]); plain = not cs.startswith("devicen")
        # ---- homogeneous family
        for t in TYPES:
            for dl, md in ls:
                dms = ["V", "R"] + (["P"] if n >= 2 and ident(md) else []) + (["W"] if n >= 2 and plain else [])
                for sl, ms in ls:
                    sms = ["V"] + (["P", "Q"] if n >= 2 and ident(ms) else [])
                    for dm in dms:
                        for sm in sms:
                            for _ in range(reps):
                                v = distinct_vals(r, n, TMAX[t]); w = dst_values(v, ms, md, TMAX[t])
                                ops.append("pair %s %s %s %s %s %s %s | %s" % (cs, t, dm, dl, sm, sl, lst(v), lst(w)))
                    for _ in range(reps + 1):
                        v = distinct_vals(r, n, 15)
                        w = dst_values(v, md, ms, 15)        # p2 colour-equal to p1 now and then
                        ops.append("alg %s %s %s %s %s | %s" % (cs, t, dl, sl, lst(v), lst(w)))
                    # three layouts: first source dl, second source sl, destination / third colour base l3 (every triple, equal ones included)
                    for l3, m3 in ls:
                        for _ in range(reps - 1 if n >= 4 and len(ls) > 1 else reps):
                            v = distinct_vals(r, n, 15); w = distinct_vals(r, n, 15); u = distinct_vals(r, n, 15)
                            ops.append("alg3 %s %s %s %s %s %s | %s | %s" % (cs, t, dl, sl, l3, lst(v), lst(w), lst(u)))
                for m in ["V", "R"] + (["P", "Q", "I"] if n >= 2 and ident(md) else []):
                    for _ in range(reps):
                        ops.append("acc %s %s %s %s %s" % (cs, t, m, dl, lst(distinct_vals(r, n, TMAX[t]))))
        # ---- packed / bit-aligned family
        for t, by_colour in SIZESETS.get(cs, {}).items():
            def phys_widths(mp): return [by_colour[mp.index(k)] for k in range(n)]
            def vals_for(mp):
                ws = phys_widths(mp); vs = []
                for wd in ws:                           # distinct where the widths allow it
                    c = [x for x in range(1 << wd) if x not in vs and x != 0] or list(range(1 << wd))
                    vs.append(r.choice(c))
                return vs
            for dl, md in ls:
                for sl, ms in ls:
                    for dm in ("K", "B"):
                        for sm in ("K", "B", "D"):
                            for _ in range(reps):
                                v = vals_for(ms); w = dst_values(v, ms, md, 0, 0, phys_widths(md))
                                ops.append("pair %s %s %s %s %s %s %s | %s" % (cs, t, dm, dl, sm, sl, lst(v), lst(w)))
                for m in ("K", "B"):
                    for _ in range(reps):
                        ops.append("acc %s %s %s %s %s" % (cs, t, m, dl, lst(vals_for(md))))
        # ---- packed pixels with spare bits: dst built from a raw bit field (spare bits 0, all ones, random), then assigned channel-wise
        for t, (by_colour, W) in SPARESETS.get(cs, {}).items():
            for dl, md in ls:
                for sl, ms in ls:
                    ws = [by_colour[ms.index(k)] for k in range(n)]
                    for sm in ("K", "B"):
                        for raw in [0, (1 << W) - 1] + [r.below(1 << W) for _ in range(reps)]:
                            v = [r.below(1 << wd) for wd in ws]
                            ops.append("spare %s %s %s %s %s %d %s" % (cs, t, dl, sm, sl, raw, lst(v)))
    return ops, {name: mp for name, cs, cols, mp in table}

def nontrivial(op, maps):
    """a case is non-trivial when a non-identity layout is involved or the two pixel models differ"""
    w = op.split()
    def nonid(l): return maps.get(l) != list(range(len(maps.get(l, []))))
    if w[0] == "pair": return nonid(w[4]) or nonid(w[6]) or w[3] != w[5]
    if w[0] == "acc": return nonid(w[4]) or w[3] != "V"
    if w[0] == "alg": return nonid(w[3]) or nonid(w[4])
    if w[0] == "alg3": return nonid(w[3]) or nonid(w[4]) or nonid(w[5])
    if w[0] == "spare": return int(w[6]) != 0                      # spare bits pre-loaded with something
    return False

ASSUME = [
    "Spec of the provided layouts: the layout's name spells the memory order (argb = alpha, red, green, blue in memory); gray, cmyk and devicenN: memory order = colour-space order",
    "C++ template selection (which constructor / operator= / static_* overload a pair of pixel types picks) is observed on the enumerated type pairs, not proven",
    "float32 channels carry small integers (exactly representable): this property is about pairing, not about arithmetic",
    "packed pixels with unused bits (4-3-2 in uint16_t, 5-6-5 and 5-5-5-1 in uint32_t, 2-2-2 and 3 in uint8_t): equality must depend on the named colours only; the unused bits are pre-loaded with 0, all ones and random bits through packed_pixel(BitField)",
    "packed and bit-aligned pixels are compatible only among themselves (their channel value type is packed_channel_value<N>): they are paired with each other, homogeneous models with each other",
]

def run(ctx, ops=None):
    regen_tables(ctx)
    with concurrent.futures.ThreadPoolExecutor(max_workers=16) as ex:
        futs = {name: ex.submit(vlib.compile_harness, ctx, "harness/C05/main.cpp", "c05_" + name, (), (), True, "-O0", defs) for name, defs in BINARIES}
        obligations, discharged = vlib.standard_proof_steps(ctx)
        bins = {name: f.result() for name, f in futs.items()}
    ctx.log("proof steps and %d harness binaries ready" % len(bins))
    for name, (b, err) in bins.items():
        if b is None:
            ctx.broken.append(("harness", "compile " + name, err[-1500:])); ctx.log("harness %s does not compile:\n%s" % (name, err[-1500:]))
    maps = {}
    if ops is None: ops, maps = gen_ops(ctx)
    else:
        try: maps = {name: mp for name, cs, cols, mp in C05_syms.extract_layouts(ctx.include)}
        except C05_syms.ExtractError: pass
    groups = {}
    for o in ops: groups.setdefault(route(o), []).append(o)
    samples = []
    def one(name):
        sub = copy.copy(ctx); sub.broken, sub.failures, sub.known_hits, sub.cov = [], [], [], {}
        if bins.get(name, (None, ""))[0] is None: return sub, [], []
        impl, model = vlib.correspond(sub, bins[name][0], "drv_C05", groups[name], label=name)
        return sub, impl, model
    with concurrent.futures.ThreadPoolExecutor(max_workers=8) as ex:
        results = {name: ex.submit(one, name) for name in groups}
        for name in sorted(groups):
            sub, impl, model = results[name].result()
            ctx.broken += sub.broken; ctx.failures += sub.failures
            for k in sub.known_hits:
                if k["id"] not in [x["id"] for x in ctx.known_hits]: ctx.known_hits.append(k)
            for key in ("evaluations", "correspondence_diffs", "harness_restarts"):
                ctx.cov[key] = ctx.cov.get(key, 0) + sub.cov.get(key, 0)
            if getattr(sub, "last_sanitizer_report", None): ctx.last_sanitizer_report = sub.last_sanitizer_report
            if impl and len(samples) < 12:
                i = len(impl) // 2
                samples.append({"op": groups[name][i][:160], "impl": impl[i][:200], "model": model[i][:200]})
    kinds, combos = {}, set()
    for o in ops:
        w = o.split(); kinds[w[0]] = kinds.get(w[0], 0) + 1
        combos.add(tuple(w[:7]) if w[0] == "pair" else tuple(w[:6]) if w[0] in ("spare", "alg3") else tuple(w[:5]))
    distinct = len({o for o in ops if nontrivial(o, maps)})
    return vlib.finish(ctx, "proof", obligations, discharged,
        rule="op lines (harness/C05/main.cpp): every ordered pair of provided layouts of each colour space (rgb 2, rgba 4, cmyk, gray, devicen2..5) x destination models "
             "{value, reference into an interleaved buffer, planar reference, planar reference bound to an interleaved pixel | packed_pixel, bit-aligned reference} x source models "
             "{value, planar reference, read-only planar reference | packed_pixel, bit-aligned reference, read-only bit-aligned reference} x {u8,u16,f32 | 6 packed size sets}, "
             "channel values distinct tags, destination initially random / colour-equal / constant; acc (every run-time index read and written) and alg lines for every layout (pair); "
             "alg3 lines: every ordered TRIPLE of provided layouts (first source, second source, destination / third colour base), each argument mutable and const, value and planar reference, "
             "and aliased arguments (destination is the first source / the second source / both sources one object / all three one object); "
             "spare lines: packed pixels with unused bits pre-loaded, == / != against same-type pixels with equal colours and different unused bits. "
             "non-trivial = distinct op line involving a non-identity layout or two different pixel models",
        samples=samples, distinct_nontrivial=distinct, assumptions=ASSUME, trusted_base=vlib.TRUSTED_BASE,
        extra={"ops_by_kind": kinds, "type_model_layout_combinations": len(combos),
               "exhaustive_domains": ["all ordered pairs of provided layouts per colour space x all listed pixel models x channel types (values sampled)"]},
        exhaustive=False)

def replay(ctx, path):
    rp = json.load(open(path))
    ops = rp.get("op_lines") or []
    if not ops: return run(ctx)
    return run(ctx, ops=ops)
