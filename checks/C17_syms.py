"""translator whitelist for C17: the matrix3x2 kernels of extension/numeric/affine.hpp, instantiated with T = long
(matrix3x2<long> is exercised by the harness op `iop`; the theorems of Props/C17Kernel.lean tie the generated defs to M32 Int)"""
from cxx2lean import Sym
H = "boost/gil/extension/numeric/affine.hpp"
F6 = "abcdef"
E = r"\s*([^,;]+?)\s*"
SIX = E + "," + E + "," + E + "," + E + "," + E + "," + E
MUL_ANCHOR = r"matrix3x2<T> operator\*\(const matrix3x2<T>& m1, const matrix3x2<T>& m2\)"

def six_to(prefix, tail=""):
    return "".join("long %s%s = \\%d; " % (prefix, c, i + 1) for i, c in enumerate(F6)) + tail

def P(prefix): return [(prefix + c, "long") for c in F6]

SYMS = [
    # operator=: member-wise copy
    Sym(H, r"matrix3x2& operator=\(const matrix3x2& m\)", "mat_assign", P("") + P("m"), outputs=list(F6),
        subst=[(r"\bm\.(\w)\b", r"m\1"), (r"return \*this;", "return;")],
        doc="matrix3x2<long>::operator= : the six members after the assignment"),
    # operator*(matrix, matrix): `return matrix3x2<T>(e1, .., e6);` -- the six constructor arguments
    Sym(H, MUL_ANCHOR, "mat_mul", P("m1") + P("m2"), outputs=["r" + c for c in F6],
        subst=[(r"return\s+matrix3x2<T>\s*\(" + SIX + r"\)\s*;", six_to("r", "return;")),
               (r"\bm1\.(\w)\b", r"m1\1"), (r"\bm2\.(\w)\b", r"m2\1"), (r"\bT const\b", "long"), (r"\bT\b", "long")],   # named temporaries stay translatable
        doc="operator*(matrix3x2<long>, matrix3x2<long>): the six entries of the product"),
    # operator*=: `(*this) = (*this)*m;` -- operator*'s body is inlined textually with m1 = *this (the members), m2 = m; the product is
    # built as a temporary (t_a .. t_f) and then assigned member by member.  A straight-line rewrite of the body (no call) translates as it stands.
    Sym(H, r"matrix3x2& operator\*=\(const matrix3x2& m\)", "mat_mul_assign", P("") + P("m"), outputs=list(F6),
        inline=[(r"\(\*this\)\s*=\s*\(\*this\)\s*\*\s*m\s*;", MUL_ANCHOR, 0)],
        subst=[(r"return\s+matrix3x2<T>\s*\(" + SIX + r"\)\s*;", six_to("t_", "".join("%s = t_%s; " % (c, c) for c in F6))),
               (r"\bm1\.(\w)\b", r"\1"), (r"\bm2\.(\w)\b", r"m\1"), (r"\bm\.(\w)\b", r"m\1"),
               (r"return \*this;", "return;"),
               (r"\bT const ([^;]+);", lambda mm: " ".join("long %s;" % d.strip() for d in mm.group(1).split(","))), (r"\bT\b", "long")],   # `T const a0 = a, c0 = c;` -> one declaration each
        doc="matrix3x2<long>::operator*= : the six members afterwards"),
    # operator*(point, matrix) = transform(matrix, point)
    Sym(H, r"point<F> operator\*\(point<T> const& p, matrix3x2<F> const& m\)", "pt_mul", P("m") + [("px", "long"), ("py", "long")],
        outputs=["rx", "ry"],
        subst=[(r"return\s*\{" + E + "," + E + r"\}\s*;", r"long rx = \1; long ry = \2; return;"),
               (r"\bm\.(\w)\b", r"m\1"), (r"\bp\.(\w)\b", r"p\1")],
        doc="operator*(point<long>, matrix3x2<long>): the transformed point"),
    Sym(H, r"static matrix3x2 get_translate\(T x, T y\)", "gen_translate", [("x", "long"), ("y", "long")], outputs=["r" + c for c in F6],
        subst=[(r"return\s+matrix3x2\s*\(" + SIX + r"\)\s*;", six_to("r", "return;"))], doc="get_translate(x, y)"),
    Sym(H, r"static matrix3x2 get_translate\(point<T> const& t\)", "gen_translate_pt", [("tx", "long"), ("ty", "long")], outputs=["r" + c for c in F6],
        subst=[(r"return\s+matrix3x2\s*\(" + SIX + r"\)\s*;", six_to("r", "return;")), (r"\bt\.(\w)\b", r"t\1")], doc="get_translate(point)"),
    Sym(H, r"static matrix3x2 get_scale\(T x, T y\)", "gen_scale", [("x", "long"), ("y", "long")], outputs=["r" + c for c in F6],
        subst=[(r"return\s+matrix3x2\s*\(" + SIX + r"\)\s*;", six_to("r", "return;"))], doc="get_scale(x, y)"),
    Sym(H, r"static matrix3x2 get_scale\(point<T> const& s\)", "gen_scale_pt", [("sx", "long"), ("sy", "long")], outputs=["r" + c for c in F6],
        subst=[(r"return\s+matrix3x2\s*\(" + SIX + r"\)\s*;", six_to("r", "return;")), (r"\bs\.(\w)\b", r"s\1")], doc="get_scale(point)"),
    Sym(H, r"static matrix3x2 get_scale\(T s\)", "gen_scale_uniform", [("s", "long")], outputs=["r" + c for c in F6],
        subst=[(r"return\s+matrix3x2\s*\(" + SIX + r"\)\s*;", six_to("r", "return;"))], doc="get_scale(s)"),
    # inverse(m) for T = long (truncating division; exact when the determinant is +-1, see C17_kernel_inverse_unimodular)
    Sym(H, r"boost::gil::matrix3x2<T> inverse\(boost::gil::matrix3x2<T> m\)", "mat_inverse", P("m"), outputs=["res" + c for c in F6],
        subst=[(r"boost::gil::matrix3x2<T> res;", "".join("long res%s = %d; " % (c, v) for c, v in zip(F6, (1, 0, 0, 1, 0, 0)))),   # default ctor: identity
               (r"\bres\.(\w)\b", r"res\1"), (r"\bm\.(\w)\b", r"m\1"), (r"return res;", "return;"), (r"\bT const\b", "long")],
        doc="inverse(matrix3x2<long>): the six entries"),
]
NAMESPACE = "GilVerif.Gen.C17"
