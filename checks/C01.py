"""C01 -- pixel access through images and views never leaves the image's storage (DESIGN.md section 5, C01)"""
import json, concurrent.futures
import os, subprocess
import vlib, C01_syms, C02_syms, C03_syms

# kind -> (harness group, has caller-buffer op)
KINDS = {"g8": (1, True), "rgb8": (1, True), "bgr8": (1, False), "rgba8": (2, False), "rgb16": (2, True), "dev5": (2, False),
         "rgb32f": (3, False), "p565": (3, True), "pl8": (4, False), "pl16c": (4, False),
         "b1": (5, False), "b2": (5, False), "b4": (5, False), "b6": (6, False), "b12": (6, False)}
GROUPS = sorted({v[0] for v in KINDS.values()})
ALIGNS = [0, 1, 2, 4, 8, 16, 32, 64, 128, 3, 5, 6, 7, 12]
CH_ALIGN = {"rgb16": 2, "rgb32f": 4, "p565": 2, "pl16c": 2}      # pixel types that must be 2/4-byte aligned (UBSan alignment check)

def xf_dims(t, w, h):
    c = t[0]
    if c in "ULI": return w, h
    if c in "TRC": return h, w
    if c == "S": sx, sy = map(int, t[1:].split(",")); return (w + sx - 1) // sx, (h + sy - 1) // sy
    a = list(map(int, t[1:].split(","))); return a[2], a[3]

def rand_xforms(r, w, h, depth):
    ts = []
    for _ in range(depth):
        c = r.choice("ULTRCISB")
        if c == "S": t = "S%d,%d" % (r.range(1, 3), r.range(1, 3))
        elif c == "B":
            x0 = r.range(0, max(w - 1, 0)); y0 = r.range(0, max(h, 0))
            t = "B%d,%d,%d,%d" % (x0, y0, r.range(0, max(w - x0, 0)), r.range(0, max(h - y0, 0)))
        else: t = c
        ts.append(t); w, h = xf_dims(t, w, h)
    return "/".join(ts) if ts else "-"

# homogeneous byte-addressed kinds (they have nth_channel_view / kth_channel_view): kind -> number of channels
CHANS = {"g8": 1, "rgb8": 3, "bgr8": 3, "rgba8": 4, "rgb16": 3, "dev5": 5, "rgb32f": 3, "pl8": 3, "pl16c": 4}
STEPPING = ["L", "I", "R", "C", "T", "S2,1", "S1,2"]          # transformations after which the x-iterator is a step iterator

def with_channel(r, kind, xf, nch=None):
    """insert one channel view (N<n> or K<k>) at a random position of a '/'-separated transformation list"""
    nch = nch or CHANS[kind]
    ts = [] if xf == "-" else xf.split("/")
    n = r.range(0, nch - 1)
    tok = ("K%d" % min(n, 2)) if r.chance(1, 3) else ("N%d" % n)
    ts.insert(r.range(0, len(ts)), tok)
    return "/".join(ts)

def pick_align(r, kind, pool=ALIGNS):
    a = r.choice(pool)
    g = CH_ALIGN.get(kind, 1)
    # an alignment that is not a multiple of the channel size would misalign the pixels of that type (the mode-0 residue too)
    return a if a % g == 0 else a * g

def gen_ops(ctx):
    r, th = ctx.rng, ctx.thorough()
    N = 40 if th else 9
    ops = []
    for kind, (grp, hasbuf) in KINDS.items():
        g = CH_ALIGN.get(kind, 1)
        def line(W, H, A, mode, R, ctor, W2, H2, A2, xf):
            return "img %s %d %d %d %d %d %s %d %d %d %s" % (kind, W, H, A, mode, R if A else 0, ctor, W2, H2, A2, xf)
        def res(A): return (r.range(0, 63) // g) * g
        # every small shape x every alignment, allocation ending at the guard page
        small = 9 if not th else 12
        for W in range(0, small + 1):
            for H in range(0, small + 1):
                for A in ([0] + [pick_align(r, kind) for _ in range(2 if not th else 4)]):
                    ops.append(line(W, H, A, 1, 0, "d", 0, 0, 0, "-"))
        # allocation starting directly behind the leading guard page (mode 0, residue 0): an access BEFORE the buffer faults
        # (e.g. a negative multi-row move of the 1-D iterator landing one row too high)
        for W in range(1, 5):
            for H in range(1, 5):
                ops.append(line(W, H, 0, 0, 0, "d", 0, 0, 0, r.choice(["-", "-", "U", "L", "T"])))
        # every alignment on a few shapes, both allocator modes, all residues
        for A in ALIGNS:
            if A % g: continue
            for (W, H) in ((1, 1), (3, 2), (5, 1), (2, 7)):
                ops.append(line(W, H, A, 1, 0, "d", 0, 0, 0, "-"))
                ops.append(line(W, H, A, 0, res(A), "f", 0, 0, 0, "-"))
        # random: constructors, copies, assignment, recreate (reuse and reallocation), derived views
        for _ in range(100000 // len(KINDS) if th else 2000 // len(KINDS) * 2):
            W, H = r.range(0, N), r.range(0, N)
            if th and W * H > 400: W, H = W % 20, H % 20
            A = pick_align(r, kind); mode = r.choice([0, 1, 1]); R = res(A)
            ctor = r.choice(["d", "d", "f", "c", "a", "r", "r"])
            W2, H2, A2 = 0, 0, 0
            if ctor in "ar":
                W2, H2 = (r.range(0, N), r.range(0, N)) if r.chance(3, 4) else (W, H)
                if th and W2 * H2 > 400: W2, H2 = W2 % 20, H2 % 20
                A2 = pick_align(r, kind) if r.chance(3, 4) else A
            fw, fh = (W2, H2) if ctor == "r" else (W, H)
            # no transformations of images without storage: the factories would do pointer arithmetic on a null pointer
            xf = rand_xforms(r, fw, fh, r.range(0, 6 if th else 3)) if fw > 0 and fh > 0 and ctor != "a" else "-"
            if kind in CHANS and fw > 0 and fh > 0 and ctor != "a" and r.chance(1, 3): xf = with_channel(r, kind, xf)
            ops.append(line(W, H, A, mode, R, ctor, W2, H2, A2, xf))
        # channel views on top of step views (and step views on top of channel views): every stepping transformation x every channel,
        # allocation ending at the guard page
        if kind in CHANS:
            for (W, H) in ((5, 4), (1, 3), (4, 1), (3, 3)) + (((7, 2), (2, 9)) if th else ()):
                for t in STEPPING + ["U", "B1,0,%d,%d" % (W - 1, H), "-"]:
                    for n in range(CHANS[kind]):
                        A = pick_align(r, kind, [0, 0, 4, 16])
                        if t == "-": ops.append(line(W, H, A, 1, 0, "d", 0, 0, 0, "N%d" % n)); continue
                        ops.append(line(W, H, A, 1, 0, "d", 0, 0, 0, "%s/N%d" % (t, n)))
                        ops.append(line(W, H, A, r.choice([0, 1]), res(A), "d", 0, 0, 0, "N%d/%s" % (n, t)))
                        if n < 3: ops.append(line(W, H, A, 1, 0, "f", 0, 0, 0, "%s/K%d/%s" % (t, n, r.choice(STEPPING))))
        # sequences of recreate calls (all four overloads in turn), biased towards calls that keep the storage
        for _ in range(6000 // len(KINDS) if th else 600 // len(KINDS)):
            W, H = r.range(1, N), r.range(1, N)
            if th and W * H > 400: W, H = W % 20 + 1, H % 20 + 1
            A = pick_align(r, kind); mode = r.choice([0, 1, 1]); R = res(A)
            calls = []
            for _ in range(r.range(1, 5)):
                if r.chance(3, 4): cw, ch = r.range(0, max(W, 1)), r.range(0, max(H, 1))       # usually fits
                else: cw, ch = r.range(0, N), r.range(0, N)
                if r.chance(1, 5): cw, ch = ch, cw
                ca = r.choice([0, 0, A, pick_align(r, kind, [0, 1, 2, 4, 8, 16])])
                if r.chance(1, 6) and calls: cw, ch, ca = calls[-1]                               # repeated call: nothing to do
                calls.append((cw, ch, ca))
            fw, fh = calls[-1][0], calls[-1][1]
            xf = rand_xforms(r, fw, fh, r.range(0, 3)) if fw > 0 and fh > 0 and r.chance(1, 2) else "-"
            ops.append(line(W, H, A, mode, R, "q", calls[0][0], calls[0][1], calls[0][2], xf) + " " +
                       ("/".join("q%d,%d,%d" % c for c in calls[1:]) if len(calls) > 1 else "-"))
        if hasbuf:
            for W in range(0, 7):
                for H in range(0, 5):
                    for PAD in (0, g, 3 * g):
                        for mode in (0, 1): ops.append("buf %s %d %d %d %d" % (kind, W, H, PAD, mode))
    # caller-supplied planar buffers of exactly 3*H*rowbytes: plain, transformed, and with channel views on top of step views
    for kind, g in (("pl8", 1), ("pl16", 2)):
        for (W, H) in [(w, h) for w in range(0, 6) for h in range(0, 5)]:
            for PAD in (0, g, 3 * g):
                ops.append("pbuf %s %d %d %d %d -" % (kind, W, H, PAD, r.choice([0, 1])))
                if W > 0 and H > 0:
                    for t in STEPPING:
                        ops.append("pbuf %s %d %d %d 1 %s/N%d" % (kind, W, H, PAD, t, r.range(0, 2)))
                    ops.append("pbuf %s %d %d %d %d %s" % (kind, W, H, PAD, r.choice([0, 1]), with_channel(r, kind, rand_xforms(r, W, H, r.range(1, 3)), 3)))
    # the witness of the fixed finding: 2-2-2 bit-aligned, 1x1 .. 5x1 / 3x3
    for (W, H) in ((1, 1), (2, 2), (3, 3), (4, 1), (5, 1)):
        ops.append("img b6 %d %d 0 1 0 d 0 0 0 -" % (W, H))
    return ops

def group_of(op): return 4 if op.startswith("pbuf") else KINDS[op.split()[1]][0]
def nontrivial(op):
    w = op.split()
    return int(w[2]) * int(w[3]) > 0

ASSUME = [
    "std::size_t / ptrdiff_t arithmetic does not overflow (explicit `< 2^64` hypotheses in every theorem)",
    "which bytes a channel access copies is modelled by packed_dynamic_channel_reference::data_size (translated); on the real code an access past the "
    "allocation is detected by a guard page placed directly behind (mode 1) or before (mode 0, residue 0) the buffer, and by ASan",
    "pixel algorithms are exercised (fill_pixels, for_each_pixel, copy_pixels) but their access sets are not modelled here (C04)",
    "allocate_and_copy = allocate_ + uninitialized_copy_pixels and swap(tmp) are hand-modelled (the assigned-to image becomes the temporary); tied by the correspondence only",
]

def regen_dependency(ctx, prop, syms_mod):
    """C01's derived-view / channel-view / navigation theorems are stated over Gen/C02.lean and Gen/C03.lean too: re-translate them from the
       tree under test in the same run, so that a change of those kernels breaks C01's obligations here (Props.C01 imports Props.C02 and Props.C03)."""
    import cxx2lean
    rel = "GilVerif/Gen/%s.lean" % prop
    out = os.path.join(ctx.lean, rel)
    ok, errs, changed = cxx2lean.generate(syms_mod.NAMESPACE, syms_mod.SYMS, ctx.include, out,
                                             syms_mod.extra_header(ctx.include) if hasattr(syms_mod, "extra_header") else "")
    ts = ctx.cov.get("translator_symbols") or {"total": 0, "found": 0}
    ctx.cov["translator_symbols"] = {"total": ts["total"] + len(syms_mod.SYMS), "found": ts["found"] + len(syms_mod.SYMS) - len(errs)}
    if not ok:
        for name, err in errs:
            ctx.broken.append(("translator", "%s.%s" % (prop, name), err)); ctx.log("translator: cannot translate %s.%s: %s" % (prop, name, err))
        r = subprocess.run(["git", "-C", vlib.VERIF, "show", "HEAD:lean/" + rel], capture_output=True)
        if r.returncode == 0:
            with open(out, "wb") as f: f.write(r.stdout)
    elif changed:
        ctx.log("translator: %s regenerated (differs from the previous generated file)" % rel)
        ctx.notes.append("generated file %s changed on this run" % rel)

def run(ctx, ops=None):
    vlib.regen(ctx, C01_syms.NAMESPACE, C01_syms.SYMS)
    regen_dependency(ctx, "C02", C02_syms)
    regen_dependency(ctx, "C03", C03_syms)
    obligations, discharged = vlib.standard_proof_steps(ctx)
    with concurrent.futures.ThreadPoolExecutor(len(GROUPS)) as ex:
        futs = {g: ex.submit(vlib.compile_harness, ctx, "harness/C01/main.cpp", "C01_g%d" % g, (), (), True, "-O0", ["KGROUP=%d" % g]) for g in GROUPS}
        bins = {g: f.result() for g, f in futs.items()}
    samples, distinct = [], 0
    bad = [(g, e) for g, (b, e) in bins.items() if b is None]
    if bad:
        for g, e in bad:
            ctx.broken.append(("harness", "compile group %d" % g, e[-1500:])); ctx.log("harness group %d does not compile:\n%s" % (g, e[-1500:]))
    else:
        ops = ops or gen_ops(ctx)
        ctx.log("generated %d op lines" % len(ops))
        for g in GROUPS:
            sub = [o for o in ops if group_of(o) == g]
            if not sub: continue
            impl, model = vlib.correspond(ctx, bins[g][0], "drv_C01", sub, label="group %d" % g)
            for i in (0, len(sub) // 2):
                samples.append({"op": sub[i][:160], "impl": impl[i][:200], "model": model[i][:200]})
        distinct = len({o for o in ops if nontrivial(o)})
        dist = {}
        for o in ops:
            k = o.split()[7] if o.startswith("img") else o.split()[0]
            if o.startswith("img") and ("N" in o.split()[11] or "K" in o.split()[11]): k += "+chan"
            dist[k] = dist.get(k, 0) + 1
        ctx.cov["input_distribution"] = dist
    return vlib.finish(ctx, "proof", obligations, discharged,
        rule="op lines over 15 pixel organisations (interleaved 1/3/4/5/6/12-byte, packed 565, planar rgb8 / cmyk16, bit-aligned 1/2/4/6/12 bits): "
             "`img` = image constructed / filled / copied / assigned / recreated with every shape 0..9 (0..40 thorough) x 14 alignments x allocator address residues, "
             "allocation placed so that it ends at (or starts after) a guard page, every pixel of the image and of a random derived view (flip / rotate / transpose / subimage / subsample, "
             "and for homogeneous kinds nth_channel_view / kth_channel_view anywhere in the list: on top of every stepping transformation x every channel) read and written through "
             "view(x,y), row_begin, begin()[i], xy_at, the 1-D iterator after negative and positive multi-row moves onto every pixel (end()-k, (begin()+j)-(j-i), rbegin()+k) "
             "and the pixel algorithms; `buf` = interleaved_view over caller buffers of exactly h*rowbytes; "
             "`pbuf` = planar_rgb_view over one caller buffer of exactly 3*h*rowbytes with derived views incl. channel views; non-trivial = non-empty image",
        samples=samples, distinct_nontrivial=distinct, assumptions=ASSUME, trusted_base=vlib.TRUSTED_BASE,
        extra={"input_distribution": ctx.cov.get("input_distribution", {}), "organisations": sorted(KINDS)})

def replay(ctx, path):
    rp = json.load(open(path))
    ops = rp.get("op_lines") or []
    if not ops: return run(ctx)
    return run(ctx, ops=ops)
