"""C17 -- samplers interpolate within bounds and resampling follows the given mapping (DESIGN.md section 5, C17)"""
import json, struct, collections, math
import os
import vlib
import C17_syms

VT = ["g8", "rgb8", "rgb8p", "g16", "g8s", "g32f", "sub", "trn"]

def bits(x): return str(struct.unpack("<Q", struct.pack("<d", float(x)))[0])

def gen_ops(ctx):
    r, th, ops = ctx.rng, ctx.thorough(), []
    def rnd(lo, hi): return lo + (hi - lo) * (r.below(1 << 30) / float(1 << 30))
    def b32(x): return str(struct.unpack("<I", struct.pack("<f", float(x)))[0])
    shapes = [(w, h) for w in range(1, 5) for h in range(1, 5)] + [(5, 1), (1, 5), (6, 3)]
    if th: shapes += [(w, h) for w in (5, 7, 10) for h in (2, 5, 7, 12)] + [(9, 1), (1, 9), (16, 16)]
    D = 8
    # --- the access pattern: both samplers on the coordinate-recording virtual view, the complete 1/8 grid over [-2, w+1] x [-2, h+1]
    for (w, h) in shapes:
        for k in "bn":
            for ny in range(-2 * D, D * (h + 1) + 1):
                ops.append("tap %s %s %d %d %d %d %d %d 1" % (k, "fd"[(ny + w) % 2], w, h, D, ny, -2 * D, D * (w + 3) + 1))
    # --- values on real view types: complete grid for gray8 (both point types), every third row for the other view kinds
    for (w, h) in shapes:
        for vi, vt in enumerate(VT):
            for F in "fd":
                step = 1 if (vt == "g8" or th) else 2
                for ny in range(-2 * D + (vi % step), D * (h + 1) + 1, step):
                    if step > 1 and F == "fd"[(ny + vi) % 2]: continue
                    for k in ("bil", "near"):
                        ops.append("%s %s %s %d %d %d %d %d %d 1" % (k, vt, F, w, h, D, ny, -2 * D, D * (w + 3) + 1))
    # finer grid (1/16 pixel: still exact in binary32 for these sources)
    for (w, h) in (shapes if th else shapes[:6]):
        for ny in range(-32, 16 * (h + 1) + 1, 1 if th else 5):
            ops.append("tap b %s %d %d 16 %d -32 %d 1" % ("fd"[ny % 2], w, h, ny, 16 * (w + 3) + 1))
            ops.append("bil %s %s %d %d 16 %d -32 %d 1" % (VT[ny % len(VT)], "df"[ny % 2], w, h, ny, 16 * (w + 3) + 1))
    # coarser grids (half / quarter pixels, integers only), wider range
    for (w, h) in shapes[:8]:
        for Dd in (1, 2, 4):
            for ny in range(-3 * Dd, Dd * (h + 2) + 1):
                ops.append("bil rgb8 d %d %d %d %d %d %d 1" % (w, h, Dd, ny, -3 * Dd, Dd * (w + 5) + 1))
                ops.append("near g16 f %d %d %d %d %d %d 1" % (w, h, Dd, ny, -3 * Dd, Dd * (w + 5) + 1))
    # --- resample_pixels with random affine maps whose entries are multiples of 1/8 (sample points stay on the grid)
    for vt in VT:
        for s in "bn":
            for i in range(200 if th else 12):
                w, h, dw, dh = r.range(1, 6), r.range(1, 6), r.range(1, 7), r.range(1, 7)
                if i % 4 == 0: m = [8, 0, 0, 8, r.range(-12, 12), r.range(-12, 12)]            # translation
                elif i % 4 == 1: m = [r.range(1, 16), 0, 0, r.range(1, 16), r.range(-8, 8), r.range(-8, 8)]   # scale + translation
                else: m = [r.range(-12, 12) for _ in range(4)] + [r.range(-16, 8 * w) , r.range(-16, 8 * h)]
                ops.append("res %s %s %d %d %d %d %s" % (vt, s, w, h, dw, dh, " ".join(map(str, m))))
            # resize_view: same size (identity) for every shape, and other sizes
            for (w, h) in shapes:
                ops.append("rsz %s %s %d %d %d %d" % (vt, s, w, h, w, h))
            for _ in range(40 if th else 8):
                ops.append("rsz %s %s %d %d %d %d" % (vt, s, r.range(1, 7), r.range(1, 7), r.range(1, 9), r.range(1, 9)))
    # --- resample_pixels with NON-dyadic scale / translate matrices whose exact images hit integer and half-integer source
    #     coordinates at some destination column (x*0.1 = 1 at column 10, x*0.3 = 4.5 at column 15, ...): any evaluation of the
    #     mapping other than transform(map,(x,y)) per pixel (e.g. stepping along the row) lands one ulp off such a boundary;
    #     double and float matrices, both samplers, small rotations, long float rows
    STEPS = [0.1, 0.3, 1.0 / 3.0, 0.7, 0.2, 0.6, 0.9, 1.1, 0.05]
    for si, st in enumerate(STEPS):
        for sw in (1, 2, 3, 5):
            for t in (0.0, 0.5, -0.5, 0.25):
                for smp in "bn":
                    dw = min(70, int((sw + 1.5) / st) + 3)
                    vt = VT[(si + sw) % len(VT)]
                    m = [st, 0.0, 0.0, st, t, t]
                    ops.append("resf %s %s %d %d %d 2 %s" % (vt, smp, sw, 2, dw, " ".join(map(bits, m))))
                    ops.append("resg %s %s %d %d %d 2 %s" % (vt, smp, sw, 2, dw, " ".join(map(b32, m))))
    for i in range(40 if th else 8):       # small rotations (b != 0: the row step moves y too)
        th_ = rnd(-0.05, 0.05); sc = r.choice(STEPS)
        m = [sc * math.cos(th_), sc * math.sin(th_), -sc * math.sin(th_), sc * math.cos(th_), r.choice([0.0, 0.5, 1.0]), r.choice([0.0, 0.5])]
        w, h = r.range(1, 6), r.range(1, 4)
        for smp in "bn":
            ops.append("resf %s %s %d %d 60 3 %s" % (r.choice(VT), smp, w, h, " ".join(map(bits, m))))
            ops.append("resg %s %s %d %d 60 3 %s" % (r.choice(VT), smp, w, h, " ".join(map(b32, m))))
    for (sw, dw, st) in [(40, 400, 0.1), (60, 600, 0.1), (30, 450, 1.0 / 15.0), (150, 500, 0.3)] + ([(200, 2000, 0.1), (64, 1000, 0.0637)] if th else []):
        for smp in "bn":                     # long rows with a float matrix: accumulated stepping error would reach a grey level
            ops.append("resg g8 %s %d 4 %d 4 %s" % (smp, sw, dw, " ".join(map(b32, [st, 0.0, 0.0, st, 0.0, 0.0]))))
            ops.append("resg rgb8 %s %d 3 %d 2 %s" % (smp, sw, dw, " ".join(map(b32, [st, 0.0, 0.0, 1.0, 0.25, 0.0]))))
            ops.append("resf g16 %s %d 2 %d 2 %s" % (smp, sw, dw, " ".join(map(bits, [st, 0.0, 0.0, 0.5, 0.0, 0.0]))))
    # --- constant and two-level sources at OFF-grid points (decimal, sevenths, random): all neighbours (nearly) equal, so the
    #     rounding of the float weights is visible in the result (finding C17-bilinear-truncates-below-min, fixed by 056e54b)
    ops.append("bilc g8 d 8 8 c 255 %s %s" % (bits(3.1452003430004312), bits(0.023078170235551899)))     # the Lean witness
    ops.append("bilc g8 f 8 8 c 255 %s %s" % (b32(6.52790165), b32(5.04227161)))
    LV = {"g8": [255, 1, 128, 200], "rgb8": [255, 77], "rgb8p": [255, 3], "g16": [65535, 1000, 40000], "g8s": [-100, 127, -127, 50]}
    for i in range(4000 if th else 400):
        vt = r.choice(sorted(LV)); F = "fd"[i % 2]; w, h = r.range(1, 8), r.range(1, 8)
        pts = []
        for _ in range(16):
            m = r.below(10)
            if m < 6: x, y = rnd(-1.2, w + 0.2), rnd(-1.2, h + 0.2)
            elif m < 8: x, y = r.range(-12, 10 * w + 2) / 10.0, r.range(-12, 10 * h + 2) / 10.0
            else: x, y = r.range(-8, 7 * w + 2) / 7.0, r.range(-2000, 1000 * h) / 1000.0
            pts += [b32(x), b32(y)] if F == "f" else [bits(x), bits(y)]
        ops.append("bilc %s %s %d %d %s %d %s" % (vt, F, w, h, "ct"[r.below(2)], r.choice(LV[vt]), " ".join(pts)))
    # --- matrix3x2<double>
    # resample_pixels with arbitrary double matrices (rotation + scale + translation about the source): sample points off the grid,
    # compared with the model's repetition of the IEEE double operation sequence
    for vt in VT:
        for s in "bn":
            for i in range(200 if th else 8):
                w, h, dw, dh = r.range(1, 6), r.range(1, 6), r.range(1, 7), r.range(1, 7)
                th_, sc = rnd(-3.2, 3.2), rnd(0.3, 2.0)
                m = [sc * math.cos(th_), sc * math.sin(th_), -sc * math.sin(th_), sc * math.cos(th_), rnd(-2, w + 1), rnd(-2, h + 1)]
                ops.append("resf %s %s %d %d %d %d %s" % (vt, s, w, h, dw, dh, " ".join(map(bits, m))))
    def rm():
        while True:
            m = [rnd(-4, 4) for _ in range(4)] + [rnd(-60, 60), rnd(-60, 60)]
            if abs(m[0] * m[3] - m[1] * m[2]) > 0.05: return m
    small = [[1, 0, 0, 1, 0, 0], [2, 0, 0, 0.5, 3, -4], [0, 1, -1, 0, 0, 0], [1, 1, 0, 1, 0.25, 8], [-1, 0, 0, -1, 10, 10]]
    mats = small + [rm() for _ in range(600 if th else 120)]
    for i, a in enumerate(mats):
        b, c = mats[(i * 7 + 3) % len(mats)], mats[(i * 11 + 5) % len(mats)]
        p = [rnd(-100, 100), rnd(-100, 100)] if i >= len(small) else [3, -2]
        ops.append("mmul " + " ".join(map(bits, a + b)))
        ops.append("massoc " + " ".join(map(bits, a + b + c)))
        ops.append("minv " + " ".join(map(bits, a)))
        ops.append("mtr " + " ".join(map(bits, a + p)))
        ops.append("mrt " + " ".join(map(bits, a + p)))
        ops.append("mgen r %s 0" % bits(rnd(-7, 7) if i else 0.0))
        ops.append("mgen t %s %s" % (bits(p[0]), bits(p[1])))
        ops.append("mgen s %s %s" % (bits(a[0]), bits(a[3])))
    # --- the COMPOUND operator*= (seed C17-matrix-mul-assign-inplace: f computed from the already updated e), chains of *=, m *= m,
    #     operator*(point, matrix) itself, the point overloads of the generators, center_rotate; all six entries non-trivial
    full = [m for m in mats[len(small):]]
    for i, a in enumerate(full):
        b, c = full[(i * 5 + 1) % len(full)], full[(i * 3 + 2) % len(full)]
        ops.append("mmuleq " + " ".join(map(bits, a + b)))
        ops.append("mself " + " ".join(map(bits, a)))
        n = 2 + i % 3
        ops.append("mseq %d %s" % (n, " ".join(map(bits, (a + b + c + full[(i * 13 + 7) % len(full)])[:6 * n]))))
        ops.append("mpt " + " ".join(map(bits, a + [rnd(-100, 100), rnd(-100, 100)])))
        ops.append("mpti %s %d %d" % (" ".join(map(bits, a)), r.range(-500, 500), r.range(-500, 500)))
        ops.append("mgenp %s %s %s" % ("tsu"[i % 3], bits(rnd(-50, 50)), bits(rnd(-50, 50))))
        ops.append("mcr %d %d %s" % (r.range(1, 40), r.range(1, 40), bits(rnd(-3.1, 3.1) if i % 8 else rnd(-12, 12))))
        ia = [r.range(-60, 60) for _ in range(12)]
        if i % 7 == 0: ia = [r.range(-1000000, 1000000) for _ in range(12)]
        for k in "mes": ops.append("iop %s %s" % (k, " ".join(map(str, ia))))
    # textbook use: identity, *= translate(-c), *= rotate, *= scale, *= translate(c) (doubles), and the same with typical small matrices
    for t in (0.0, 0.7, -1.3, math.pi / 2, 3.0):
        tr1, rot, sc, tr2 = [1, 0, 0, 1, -3.0, -5.0], [math.cos(t), math.sin(t), -math.sin(t), math.cos(t), 0, 0], [1.5, 0, 0, 0.75, 0, 0], [1, 0, 0, 1, 3.0, 5.0]
        ops.append("mmuleq " + " ".join(map(bits, tr2 + rot)))
        ops.append("mseq 3 " + " ".join(map(bits, tr1 + rot + tr2)))
        ops.append("mseq 4 " + " ".join(map(bits, tr1 + rot + sc + tr2)))
        ops.append("mself " + " ".join(map(bits, [math.cos(t), math.sin(t), -math.sin(t), math.cos(t), 2.0, -1.0])))
    # --- resample_pixels through a map that was COMPOSED step by step with operator*= ...
    from fractions import Fraction as Fr
    def mulq(m1, m2):
        return [m1[0] * m2[0] + m1[1] * m2[2], m1[0] * m2[1] + m1[1] * m2[3], m1[2] * m2[0] + m1[3] * m2[2], m1[2] * m2[1] + m1[3] * m2[3],
                m1[4] * m2[0] + m1[5] * m2[2] + m2[4], m1[4] * m2[1] + m1[5] * m2[3] + m2[5]]
    RVT = [v for v in VT if v != "g32f"]
    # ... with entries k/8 (exact: the judge evaluates the sampler Spec at transform(M1*..*Mn, (x,y)) on the 1/8^n grid)
    for i in range(400 if th else 48):
        vt, smp = RVT[i % len(RVT)], "bn"[(i // len(RVT)) % 2]
        w, h, dw, dh = r.range(1, 6), r.range(1, 6), r.range(2, 7), r.range(2, 7)
        n = 2 + (i % 2)
        ms = []
        for j in range(n - 1):
            while True:
                m = [r.range(-12, 12) for _ in range(4)] + [r.range(-40, 40), r.range(-40, 40)]
                if j == 0 and i % 4 == 1: m = [8, 0, 0, 8, r.range(-40, 40) or 3, r.range(-40, 40) or 5]       # translate first
                if j == 1 and i % 4 == 2: m = [r.range(-12, 12) or 1, 0, 0, r.range(-12, 12) or 1, 0, 0]         # scale in the middle
                if m[0] * m[3] - m[1] * m[2] != 0 and (j != n - 2 or i % 4 == 2 or m[1] != 0): break
            ms.append(m)
        P = [Fr(1), Fr(0), Fr(0), Fr(1), Fr(0), Fr(0)]
        for m in ms: P = mulq(P, [Fr(x, 8) for x in m])
        cx, cy = Fr(dw - 1, 2), Fr(dh - 1, 2)
        ix, iy = P[0] * cx + P[2] * cy + P[4], P[1] * cx + P[3] * cy + P[5]
        ex, ey = round((Fr(w - 1, 2) - ix) * 8), round((Fr(h - 1, 2) - iy) * 8)
        last = [8, 0, 0, 8, ex, ey] if i % 3 else [8, 1, -1, 8, ex, ey]
        ms.append(last)
        ops.append("resc %s %s %d %d %d %d %d %s" % (vt, smp, w, h, dw, dh, n, " ".join(str(x) for m in ms for x in m)))
    # ... followed by a self multiplication m *= m (grid 1/8^(2n)); the factors are rejected until (M..)^2 maps the destination centre into the source
    for i in range(200 if th else 32):
        vt, smp = RVT[i % len(RVT)], "bn"[(i // len(RVT)) % 2]
        w, h, dw, dh = r.range(2, 6), r.range(2, 6), r.range(2, 6), r.range(2, 6)
        n = 1 + (i % 2)
        for attempt in range(4000):
            ms = [[r.range(-12, 12) for _ in range(4)] + [r.range(-24, 24), r.range(-24, 24)] for _ in range(n)]
            if any(m[1] == 0 or m[4] == 0 or m[0] * m[3] - m[1] * m[2] == 0 for m in ms): continue
            P = [Fr(1), Fr(0), Fr(0), Fr(1), Fr(0), Fr(0)]
            for m in ms: P = mulq(P, [Fr(x, 8) for x in m])
            P = mulq(P, P)
            cx, cy = Fr(dw - 1, 2), Fr(dh - 1, 2)
            ix, iy = P[0] * cx + P[2] * cy + P[4], P[1] * cx + P[3] * cy + P[5]
            if 0 <= ix <= w - 1 and 0 <= iy <= h - 1 and abs(P[0] * P[3] - P[1] * P[2]) > Fr(1, 20): break
        else: continue
        ops.append("rescs %s %s %d %d %d %d %d %s" % (vt, smp, w, h, dw, dh, n, " ".join(str(x) for m in ms for x in m)))
    # --- resample_subimage itself (so far only reached through resize_view, angle 0): sub-rectangles, rotation angles, both samplers
    for i in range(400 if th else 64):
        vt, smp = VT[i % len(VT)], "bn"[(i // len(VT)) % 2]
        w, h, dw, dh = r.range(1, 7), r.range(1, 7), r.range(1, 8), r.range(1, 8)
        x1, y1 = rnd(-0.5, w / 2.0), rnd(-0.5, h / 2.0)
        if i % 4 == 0: x1, y1 = float(r.range(0, w - 1)), float(r.range(0, h - 1))
        x2, y2 = x1 + rnd(0.5, w + 1.0), y1 + rnd(0.5, h + 1.0)
        if i % 4 == 0: x2, y2 = float(r.range(int(x1) + 1, w + 1)), float(r.range(int(y1) + 1, h + 1))
        ang = [0.0, math.pi / 2, -math.pi / 2, math.pi, 0.3, -1.1, 2.5][i % 7] if i % 3 else rnd(-3.2, 3.2)
        if i % 4 == 2:      # both centres are pixels: odd destination, rectangle centre at integer coordinates inside the source (clause subimage-centre)
            w, h, dw, dh = r.range(3, 7), r.range(3, 7), r.choice([3, 5, 7]), r.choice([3, 5, 7])
            cx, cy = r.range(0, w - 1), r.range(0, h - 1)
            hx, hy = r.range(1, 3), r.range(1, 3)
            x1, y1, x2, y2 = float(cx - hx), float(cy - hy), float(cx + hx + 1), float(cy + hy + 1)
        ops.append("rsub %s %s %d %d %d %d %s" % (vt, smp, w, h, dw, dh, " ".join(map(bits, [x1, y1, x2, y2, ang]))))
    # --- round trip at pixel level: unimodular INTEGER maps composed with *= (quarter turns, flips, shears, integer translations), nearest neighbour forward,
    #     then inverse(m) backward: every source pixel whose preimage lies in the intermediate image must come back
    UNI = [[0, 1, -1, 0], [0, -1, 1, 0], [-1, 0, 0, -1], [1, 1, 0, 1], [1, 0, 1, 1], [1, -1, 0, 1], [-1, 0, 0, 1], [1, 0, 0, -1], [2, 1, 1, 1], [1, 2, 1, 3], [0, 1, 1, 0]]
    for i in range(300 if th else 48):
        vt = VT[i % len(VT)]
        w, h = r.range(1, 6), r.range(1, 6)
        n = 1 + i % 3
        ms = [r.choice(UNI) + [r.range(-4, 4), r.range(-4, 4)] for _ in range(n)]
        P = [Fr(1), Fr(0), Fr(0), Fr(1), Fr(0), Fr(0)]
        for m in ms: P = mulq(P, [Fr(x) for x in m])
        det = P[0] * P[3] - P[1] * P[2]
        # translate so that the preimage of the source's centre is the centre of a destination big enough to hold most of the preimage
        dw, dh = r.range(max(w, h), max(w, h) + 4), r.range(max(w, h), max(w, h) + 4)
        cu, cv = (w - 1) // 2, (h - 1) // 2
        qx = det * (P[3] * cu - P[2] * cv + (P[2] * P[5] - P[3] * P[4])); qy = det * (-P[1] * cu + P[0] * cv + (P[1] * P[4] - P[0] * P[5]))
        # append a translation T: (P*T)^-1 (u) = P^-1(u - t): choose t so that the preimage of the centre is (dw//2, dh//2): solve by shifting u
        tx, ty = dw // 2 - qx, dh // 2 - qy          # shift in destination coordinates = a translation applied FIRST
        ms = [[1, 0, 0, 1, int(-tx), int(-ty)]] + ms
        ops.append("resrt %s %d %d %d %d %d %s" % (vt, w, h, dw, dh, len(ms), " ".join(str(x) for m in ms for x in m)))
        # the same unimodular product as a matrix3x2<long>: inverse (exact), point<long> * matrix
        Pi = [int(x) for x in P]
        ops.append("iop i %s 0 0 0 0 0 0" % " ".join(map(str, Pi)))
        ops.append("iop p %s %d %d 0 0 0 0" % (" ".join(map(str, Pi)), r.range(-50, 50), r.range(-50, 50)))
    # --- matrix3x2<float>: product, compound product, self product, inverse, transform (binary32 replay)
    for i, a in enumerate(full[:60] if not th else full):
        b = full[(i * 5 + 1) % len(full)]
        for k in "mesit": ops.append("fop %s %s" % (k, " ".join(map(b32, a + b))))
    # ... and with double matrices: translate(-c) , rotate(t), scale, translate(c') about the destination / source centres, and random full matrices
    for i in range(300 if th else 40):
        vt, smp = VT[i % len(VT)], "bn"[(i // len(VT)) % 2]
        w, h, dw, dh = r.range(1, 6), r.range(1, 6), r.range(2, 7), r.range(2, 7)
        t, sc = rnd(-3.2, 3.2), rnd(0.4, 1.8)
        ms = [[1, 0, 0, 1, -(dw - 1) / 2.0 + rnd(-0.3, 0.3), -(dh - 1) / 2.0 + rnd(-0.3, 0.3)],
              [math.cos(t), math.sin(t), -math.sin(t), math.cos(t), 0, 0]]
        if i % 2: ms.append([sc, 0, 0, sc * rnd(0.5, 1.5), 0, 0])
        if i % 5 == 4: ms.insert(1, [1, rnd(-0.5, 0.5), rnd(-0.5, 0.5), 1, rnd(-1, 1), rnd(-1, 1)])
        ms.append([1, 0, 0, 1, (w - 1) / 2.0 + rnd(-0.3, 0.3), (h - 1) / 2.0 + rnd(-0.3, 0.3)])
        ops.append("resmf %s %s %d %d %d %d %d %s" % (vt, smp, w, h, dw, dh, len(ms), " ".join(bits(x) for m in ms for x in m)))
    return ops

def nontrivial(op):
    w = op.split()
    if w[0] in ("bil", "near", "tap"):
        h, D, ny = int(w[4]), int(w[5]), int(w[6])
        return -D <= ny <= h * D            # the row crosses the view: it holds inside, border and outside points
    if w[0] == "res": return w[7:] != ["8", "0", "0", "8", "0", "0"]
    return True

def points_of(op):
    w = op.split()
    if w[0] in ("bil", "near", "tap"): return int(w[8])
    if w[0] in ("res", "rsz", "rsub", "resf", "resg", "resc", "rescs", "resmf"): return int(w[5]) * int(w[6])
    if w[0] == "resrt": return int(w[2]) * int(w[3]) + int(w[4]) * int(w[5])
    if w[0] == "bilc": return (len(w) - 7) // 2
    return 1

ASSUME = [
    "partial (float): every theorem is about exact arithmetic (Rat, or an arbitrary field for matrix3x2); the code computes in float/double. "
    "On the n/8 grid with integer-valued sources every operation of the samplers is exact, so there the exact model must equal the code (compared exactly); "
    "for resize_view and matrix3x2 the executable model repeats the code's IEEE double operation sequence (Lean Float) and is compared bit for bit",
    "get_rotate: cos/sin enter the theorems as an opaque pair (c, s); the model side of the correspondence calls the same libm",
    "sources are at least 1x1; point coordinates within the ptrdiff_t range (the casts in iround/ifloor are UB otherwise)",
    "scale_lanczos / lanczos_at (image_processing/scaling.hpp) are not part of the property's statement and are not modelled",
    "float evaluation of the bilinear sampler: proved RELATIVE TO FloatSpec only (Props/C17Float.lean, C17_float_*: weights sum within [1-6eps,1+7eps], lo-1 <= result <= hi); "
    "finding C17-bilinear-truncates-below-min is fixed (056e54b, cast_channel_fn rounds to nearest): relative to FloatSpec the rounded result lies in [min, max] "
    "(C17_float_bilinear_rounded_between); the `bilc` stratum (constant / two-level sources at decimal, seventh and random points; Float / Float32 replay) keeps watching it",
]

def run(ctx, ops=None):
    vlib.regen(ctx, C17_syms.NAMESPACE, C17_syms.SYMS)      # matrix3x2 kernels of affine.hpp (T = long) -> lean/GilVerif/Gen/C17.lean
    obligations, discharged = vlib.standard_proof_steps(ctx, extra_props=["GilVerif.Props.C17Float", "GilVerif.Props.C17Kernel"])
    if any(b[0] == "theorem" and not b[1].startswith("C17_") for b in ctx.broken): discharged = 0
    if not os.path.isfile(os.path.join(ctx.include, "boost/gil/extension/numeric/sampler.hpp")):
        ctx.broken.append(("harness", "include root", "%s does not hold the headers under test" % ctx.include))
    binary, err = vlib.compile_harness(ctx, "harness/C17/main.cpp")
    samples, distinct, extra = [], 0, {}
    if binary is None:
        ctx.broken.append(("harness", "compile", err[-1500:])); ctx.log("harness does not compile:\n" + err[-1500:])
    else:
        ops = ops or gen_ops(ctx)
        impl, model = vlib.correspond(ctx, binary, "drv_C17", ops)
        distinct = len({o for o in ops if nontrivial(o)})
        extra["ops_by_kind"] = dict(collections.Counter(o.split()[0] for o in ops))
        extra["sample_points_judged"] = sum(points_of(o) for o in ops)
        toks = collections.Counter()
        for o, r in zip(ops, impl):
            if o.split()[0] in ("bil", "near", "tap"):
                for t in r.split(): toks["outside" if t == "o" else ("bad" if t == "X" else "sampled")] += 1
        extra["grid_points"] = dict(toks)
        verdicts = vlib.run_driver(ctx, "drv_C17", "judge", [o + "\t" + r for o, r in zip(ops, impl)])
        extra["verdicts_by_kind"] = dict(sorted(collections.Counter("%s:%s" % (o.split()[0], v) for o, v in zip(ops, verdicts)).items()))
        import re as _re
        val_tok = _re.compile(r"^-?\d+(,-?\d+)*$")
        below = sum(1 for o, r in zip(ops, impl) if o.startswith("bilc ") and o.split()[5] == "c"
                    for t in r.split() if val_tok.match(t) and any(int(c) != int(o.split()[6]) for c in t.split(",")))
        total = sum(1 for o, r in zip(ops, impl) if o.startswith("bilc ") and o.split()[5] == "c" for t in r.split() if val_tok.match(t))
        extra["ops_aborted_in_gil"] = sum(1 for r in impl if r.startswith(("crash", "ub:", "assert", "harness-gave-up", "timeout")))
        extra["constant_source_samples"] = total
        extra["constant_source_samples_not_equal_to_the_constant"] = below
        comp = collections.Counter()
        for o, r in zip(ops, impl):
            if o.split()[0] in ("resc", "rescs", "resmf", "resrt"):
                for t in r.split(" | ")[-1].split():
                    comp["equal_to_prefill" if set(t.split(",")) == {"1792" if o.split()[1] == "g32f" else "7"} else "written"] += 1
        extra["pixels_through_maps_composed_with_compound_multiplication"] = dict(comp)
        taps = collections.Counter()
        for o, r in zip(ops, impl):
            if o.startswith("tap b"):
                for t in r.split():
                    if "=" in t: taps[len(t.split("=")[0].split(","))] += 1
        extra["bilinear_pixels_read_histogram"] = {str(k): v for k, v in sorted(taps.items())}
        for i in (0, len(ops) // 5, 2 * len(ops) // 5, 3 * len(ops) // 5, 4 * len(ops) // 5, len(ops) - 1):
            samples.append({"op": ops[i][:140], "impl": impl[i][:200], "model": model[i][:200]})
    return vlib.finish(ctx, "proof", obligations, discharged,
        rule="op lines: both samplers on a coordinate-recording virtual view over the complete 1/8-pixel grid of [-2,w+1]x[-2,h+1] for 19 source shapes from 1x1 (every row), "
             "values on 8 view kinds (gray8 complete grid, both point types; the others every third row) and on 1, 1/2, 1/4 grids; resample_pixels with random affine maps with entries k/8 "
             "(library loop vs direct sample() loop vs model); resample_pixels with random rotation-scale-translation double matrices and with non-dyadic scale/translate double and float matrices whose images hit integer / half-integer source boundaries, incl. long float rows (model repeats the IEEE operations); bilinear on constant / two-level sources at off-grid float and double points (Float32 / Float replay); resize_view same size and other sizes; resample_subimage with sub-rectangles and rotation angles; matrix3x2<double> product / associativity / inverse / transform / round trip / generators on random "
             "well-conditioned matrices (bit patterns); the compound operator*= (mmuleq, chains mseq from the default-constructed identity, self multiplication m *= m), operator*(point, matrix) with double and integer points, "
             "the point overloads of get_translate / get_scale, center_rotate, matrix3x2<long> product / *= / self (iop), resample_pixels through maps composed step by step with *= "
             "(resc: entries k/8, Spec judged exactly at transform(M1*..*Mn,(x,y)); rescs: followed by m *= m; resmf: double matrices; resrt: unimodular integer maps, forward then inverse(m) backward, every pixel must come back), matrix3x2<float> product / *= / self / inverse / transform (fop). non-trivial = grid row that crosses the view, non-identity map, any matrix op (distinct op lines counted)",
        samples=samples, distinct_nontrivial=distinct, assumptions=ASSUME, trusted_base=vlib.TRUSTED_BASE + [
            "translated kernels (tools/cxx2lean.py, regenerated every run): matrix3x2 operator=, operator*, operator*=, operator*(point, matrix), get_translate / get_scale (all overloads), instantiated with T = long; "
            "the samplers, resample_pixels, inverse, get_rotate, center_rotate and the floating point instantiations are hand-modelled and tied by the correspondence run only",
            "Lean Float (IEEE double) and libm cos/sin on the model side of the correspondence (no theorem depends on them)"],
        extra=extra, exhaustive=False)

def replay(ctx, path):
    rp = json.load(open(path))
    ops = rp.get("op_lines") or []
    if not ops: return run(ctx)
    return run(ctx, ops=ops)
