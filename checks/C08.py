"""C08 -- packed / bit-aligned channel writes change exactly their own bits (DESIGN.md section 5, C08)

Flow: translator (bit cursor kernels, data_size) -> lake build of Props.C08 + drv_C08 -> axiom audit ->
seven harness binaries compiled in parallel from the tree under test (harness/C08/field.cpp parts 1-4,
pixel.cpp parts 1-3) -> op lines routed to the binary that instantiates their types -> model vs
implementation diff and Spec judge (drv_C08) -> verdict, evidence.
"""
import json, copy, concurrent.futures
import vlib, C08_syms

WIDTHS = [1, 2, 3, 4, 5, 6, 7, 8, 10, 12, 16]

def carrier(n): return 8 if n <= 8 else 16 if n <= 16 else 32 if n <= 32 else 64
def data_size(first, num, fb): return min((first + num + 7) // 8, fb)

# ---- static reference instantiations of harness/C08/field.cpp (must mirror `firsts` / `width_ok` there;
# a mismatch shows up as a `bad-op` observation = broken correspondence, never silently)
def static_firsts(W, N, sweep):
    if W <= 16 and (sweep or W == 8): return list(range(0, W - N + 1))
    if W == 16: base = [0, 1, 3, 5, 8, 11, 16 - N]
    elif W == 32: base = [0, 5, 11, 16, 21, 32 - N]
    else: base = [0, 13, 32, 45, 64 - N]
    return sorted({f for f in base if f >= 0 and f + N <= W})
def static_widths(W): return [n for n in WIDTHS if n <= W and (W <= 16 or n in (1, 5, 8, 10, 16))]
def dyn_widths(W): return [n for n in WIDTHS if n + 7 <= W or n <= 8]
def dyn_firsts(W, N): return [f for f in range(8) if f + N <= W]

# ---- pixel configurations of harness/C08/pixel.cpp: name -> (part, sizeof(BitField), widths, channel mapping)
RGB, BGR, RGBA, BGRA, ARGB, ABGR = [0, 1, 2], [2, 1, 0], [0, 1, 2, 3], [2, 1, 0, 3], [1, 2, 3, 0], [3, 2, 1, 0]
PP = {
    "pp565": (1, 2, [5, 6, 5], RGB), "pp565bgr": (1, 2, [5, 6, 5], BGR), "pp556bgr": (1, 2, [5, 5, 6], BGR),
    "pp332": (1, 1, [3, 3, 2], RGB), "pp232pad": (1, 2, [2, 3, 2], RGB), "pp232padbgr": (1, 2, [2, 3, 2], BGR),
    "pp4444": (1, 2, [4, 4, 4, 4], RGBA), "pp4444abgr": (1, 2, [4, 4, 4, 4], ABGR), "pp1555argb": (1, 2, [1, 5, 5, 5], ARGB),
    "ppaaa2": (1, 4, [10, 10, 10, 2], RGBA), "pp8888bgra": (1, 4, [8, 8, 8, 8], BGRA),
    "ppg3": (1, 1, [3], [0]), "ppg12": (1, 2, [12], [0]), "ppcmyk": (1, 8, [16, 16, 16, 16], [0, 1, 2, 3]),
    "pp76": (1, 2, [7, 6], [0, 1]), "pp12345": (1, 2, [1, 2, 3, 4, 5], [0, 1, 2, 3, 4]),
}
PP_PAIRS = [("pp565", "pp565bgr"), ("pp565bgr", "pp565"), ("pp4444", "pp4444abgr"), ("pp4444abgr", "pp4444"),
            ("pp232pad", "pp232padbgr"), ("pp232padbgr", "pp232pad")]
BA = {
    "bg1": (2, 1, [1], [0]), "bg2": (2, 2, [2], [0]), "bg4": (2, 2, [4], [0]), "bg7": (2, 2, [7], [0]),
    "bg12": (2, 4, [12], [0]), "bg16": (2, 4, [16], [0]),
    "b222": (2, 2, [2, 2, 2], RGB), "b222bgr": (2, 2, [2, 2, 2], BGR), "b121": (2, 2, [1, 2, 1], RGB), "b232": (3, 2, [2, 3, 2], RGB),
    "b565": (3, 4, [5, 6, 5], RGB), "b888": (3, 4, [8, 8, 8], RGB), "b3333": (3, 4, [3, 3, 3, 3], RGBA), "b5551abgr": (3, 4, [5, 5, 5, 1], ABGR),
    "baaa": (3, 8, [10, 10, 10], RGB), "b222w": (3, 8, [2, 2, 2], RGB), "b12345": (3, 4, [1, 2, 3, 4, 5], [0, 1, 2, 3, 4]),
}
# bit-aligned references with TIGHT carriers (bit field exactly pixel-sized): only positions where every channel, at its own
# normalised first bit, fits the bit field are in contract
BA_TIGHT = {
    "t2222": (4, 1, [2, 2, 2, 2], RGBA), "t232": (4, 1, [2, 3, 2], RGB), "t44": (4, 1, [4, 4], [0, 1]),
    "t565": (4, 2, [5, 6, 5], RGB), "t565bgr": (4, 2, [5, 6, 5], BGR), "t8888": (4, 4, [8, 8, 8, 8], RGBA), "tg8": (4, 1, [8], [0]),
}
BA.update(BA_TIGHT)
def pixel_fits(name, pos):
    _, fb, ws, _ = BA[name]; lo = pos
    for w in ws:
        if lo % 8 + w > 8 * fb: return False
        lo += w
    return True
def in_contract(op):
    """every pixel position a bit-aligned op touches lets each channel fit its bit field (always true for carriers of pixel + 7 bits)"""
    w = op.split()
    if w[1] not in BA_TIGHT or w[0] in ("iadv", "iinc"): return True
    bs = sum(BA[w[1]][2]); pos = lambda i: 8 * int(w[i]) + int(w[i + 1])
    if w[0] in ("bget", "bset", "barith", "bassign"): ps = [pos(4)]
    elif w[0] in ("bcopy", "bswap"): ps = [pos(4), pos(6)]
    elif w[0] == "bfill": ps = [pos(4) + i * bs for i in range(int(w[6]))]
    elif w[0] == "bcpy": ps = [pos(4) + i * bs for i in range(int(w[8]))] + [pos(6) + i * bs for i in range(int(w[8]))]
    else: ps = []
    return all(pixel_fits(w[1], p) for p in ps)
def desc(c): return "%d:%s:%s" % (c[1], ",".join(map(str, c[2])), ",".join(map(str, c[3])))

ARITH = ["inc", "dec", "pinc", "pdec", "add", "sub", "mul", "div"]

def rhex(r, nbytes): return "".join("%02x" % r.below(256) for _ in range(nbytes))
def patterned(r, nbytes):
    """buffer contents: random, or one of the structured backgrounds (all ones, all zeros, alternating)"""
    k = r.below(8)
    if k == 0: return "ff" * nbytes
    if k == 1: return "00" * nbytes
    if k == 2: return ("a5" * nbytes)[:2 * nbytes]
    return rhex(r, nbytes)
def arith_arg(r, op, N):
    if op in ("inc", "dec", "pinc", "pdec"): return 0
    if op in ("add", "sub"): return r.choice([1, 2, (1 << N) - 1, 1 << N, (1 << N) + 1, -1, r.range(-300, 300)])
    if op == "mul": return r.range(-9, 9)
    d = r.range(1, 9)
    return d if (N > 16 or r.chance(3, 4)) else -d

def gen_field_ops(ctx):
    r, th, ops = ctx.rng, ctx.thorough(), []
    # 1. static reference, complete content sweeps of 8- and 16-bit fields for every (first bit, width)
    for W in (8, 16):
        for N in static_widths(W):
            for F in static_firsts(W, N, True):
                ops.append("ssweep %d %d %d 0 %d %d %d" % (W, F, N, 1 << W, r.below(1 << N), 2 * r.below(1 << 15) + 1))
                if th or W == 8:
                    ops.append("ssweep %d %d %d 0 %d 0 0" % (W, F, N, 1 << W))
                    ops.append("ssweep %d %d %d 0 %d %d 0" % (W, F, N, 1 << W, (1 << N) - 1))
    for W in (32, 64):
        for N in static_widths(W):
            for F in static_firsts(W, N, True):
                cnt = 4096 if th else 256
                for _ in range(64 if th else 4):
                    c0 = r.choice([0, (1 << W) - cnt, r.below((1 << W) - cnt)])
                    ops.append("ssweep %d %d %d %d %d %d %d" % (W, F, N, c0, cnt, r.below(1 << N), 2 * r.below(1 << 15) + 1))
    # 2. static reference, single operations
    for W in (8, 16, 32, 64):
        for N in static_widths(W):
            for F in static_firsts(W, N, False):
                for op in ["set", "setr", "setc", "setd", "swp", "swv", "get"] + ARITH:
                    for _ in range(12 if th else 2):
                        field, other = patterned(r, W // 8), patterned(r, W // 8)
                        if op in ("set", "swv"): arg = r.choice([0, (1 << N) - 1, r.below(1 << N)])
                        elif op == "setd":
                            cand = dyn_firsts(W, N)
                            if N not in dyn_widths(W) or not cand: continue
                            arg = r.choice(cand)
                        else: arg = arith_arg(r, op, N)
                        ops.append("sop %d %d %d %s %d %s %s" % (W, F, N, op, arg, field, other))
    # 3. run-time first-bit reference: complete sweep of the 16 bits under the channel, tight buffers
    for N in dyn_widths(16):
        for first in dyn_firsts(16, N):
            ops.append("dsweep 16 %d 2 0 %d 0 65536 %d %d 0000" % (N, first, r.below(1 << N), 2 * r.below(1 << 15) + 1))
            if data_size(first, N, 2) == 1:      # only one byte holds the channel: a one-byte buffer must do
                ops.append("dsweep 16 %d 1 0 %d 0 256 %d %d 00" % (N, first, r.below(1 << N), 2 * r.below(128) + 1))
            ops.append("dsweep 16 %d 4 1 %d %d 256 %d %d %s" % (N, first, r.below(65536 - 256), r.below(1 << N), 2 * r.below(128) + 1, rhex(r, 4)))
    for N in dyn_widths(8):
        for first in dyn_firsts(8, N):
            ops.append("dsweep 8 %d 1 0 %d 0 256 %d %d 00" % (N, first, r.below(1 << N), 2 * r.below(128) + 1))
            ops.append("dsweep 8 %d 3 1 %d 0 256 %d %d %s" % (N, first, r.below(1 << N), 2 * r.below(128) + 1, rhex(r, 3)))
    for W in (32, 64):
        fb = W // 8
        for N in dyn_widths(W):
            for first in dyn_firsts(W, N):
                n = data_size(first, N, fb)
                # (a) the smallest buffer that holds the channel (b) a full field with guard bytes around it
                ops.append("dsweep %d %d %d 0 %d %d %d %d %d %s" % (W, N, n, first, 0 if n == 1 else r.below(65536 - 4096), 256 if n == 1 else (4096 if th else 512),
                                                                   r.below(1 << N), 2 * r.below(128) + 1, rhex(r, n)))
                for _ in range(16 if th else 1):
                    cnt = 1024 if th else 256
                    ops.append("dsweep %d %d %d 1 %d %d %d %d %d %s" % (W, N, fb + 2, first, r.below(65536 - cnt), cnt, r.below(1 << N), 2 * r.below(128) + 1, rhex(r, fb + 2)))
    # 4. run-time first-bit reference, single operations (second operand: any disjoint window that fits the buffer)
    for W in (8, 16, 32, 64):
        fb = W // 8
        for N in dyn_widths(W):
            for first in dyn_firsts(W, N):
                for op in ["set", "setr", "setc", "swp", "swv", "get"] + ARITH:
                    for _ in range(8 if th else 1):
                        tight = r.chance(1, 2)
                        ptr = 0 if tight else r.below(3)
                        ln = ptr + data_size(first, N, fb) if tight else ptr + fb + r.below(3)
                        if op in ("setr", "setc", "swp"):
                            ln += fb + 1; lo = 8 * ptr + first
                            cand = [(p2, f2) for p2 in range(ln) for f2 in range(8) if f2 + N <= W and p2 + data_size(f2, N, fb) <= ln
                                    and (8 * p2 + f2 + N <= lo or lo + N <= 8 * p2 + f2)]
                            p2, f2 = r.choice(cand); arg = "%d:%d" % (p2, f2)
                        elif op in ("set", "swv"): arg = str(r.choice([0, (1 << N) - 1, r.below(1 << N)]))
                        else: arg = str(arith_arg(r, op, N))
                        ops.append("dop %d %d %d %d %d %s %s %s" % (W, N, ln, ptr, first, op, arg, patterned(r, ln)))
    # 5. value type; wide channels outside the quantifier (correspondence only)
    for N in WIDTHS:
        for v in [-1, 0, 1, (1 << N) - 1, 1 << N, (1 << N) + 1, -(1 << N), r.range(-(1 << 20), 1 << 20), r.range(-(1 << 30), 1 << 30)]:
            ops.append("pval %d %d" % (N, v))
    # channels of 24 and 32 bits in a 64-bit field (wider than the property's quantifier asks for; the fixed finding
    # C08-dynamic-reference-wide-channel-shift lived here).  Buffers hold a whole bit field so that the pre-fix tree shows
    # the lost bits and not only its over-read.
    for N in (24, 32):
        for first in range(8):
            for op, arg in (("set", (1 << N) - 1), ("set", r.below(1 << N)), ("inc", 0), ("dec", 0), ("add", r.range(1, 300)), ("get", 0)):
                ln = 8 + r.below(3)
                ops.append("xdop 64 %d %d 0 %d %s %d %s" % (N, ln, first, op, arg, patterned(r, ln)))
    return ops

def gen_pixel_ops(ctx):
    r, th, ops = ctx.rng, ctx.thorough(), []
    reps = 16 if th else 2
    for name, c in PP.items():
        _, fb, ws, mp = c; d = desc(c)
        for k, w in enumerate(ws):
            for _ in range(2 * reps):
                ops.append("pset %s %s %d %d %s" % (name, d, k, r.choice([0, (1 << w) - 1, r.below(1 << w)]), patterned(r, fb)))
            for op in ARITH:
                for _ in range(reps):
                    ops.append("parith %s %s %d %s %d %s" % (name, d, k, op, arith_arg(r, op, w), patterned(r, fb)))
        for _ in range(2 * reps):
            ops.append("pctor %s %s %s" % (name, d, " ".join(str(r.below(1 << w)) for w in ws)))
    for dn, sn in PP_PAIRS:
        for _ in range(4 * reps):
            ops.append("passign %s %s %s %s %s %s" % (dn, desc(PP[dn]), sn, desc(PP[sn]), patterned(r, PP[sn][1]), patterned(r, PP[dn][1])))
    for name, c in BA.items():
        _, fb, ws, mp = c; d = desc(c); bs = sum(ws)
        def place(npix=1, extra=0):
            """byte, bit offset and a buffer length: half of the time the smallest buffer that holds the pixels"""
            byte, off = r.below(3), r.below(8)
            need = (8 * byte + off + npix * bs + 7) // 8
            return byte, off, need + extra + (0 if r.chance(1, 2) else r.below(fb + 2))
        for off in range(8):
            for k, w in enumerate(ws):
                for _ in range(reps):
                    byte, _, ln = place(); ln = max(ln, (8 * byte + off + bs + 7) // 8)
                    ops.append("bset %s %s %d %d %d %d %d %s" % (name, d, ln, byte, off, k, r.choice([0, (1 << w) - 1, r.below(1 << w)]), patterned(r, ln)))
            byte, _, ln = place(); ln = max(ln, (8 * byte + off + bs + 7) // 8)
            ops.append("bget %s %s %d %d %d %s" % (name, d, ln, byte, off, rhex(r, ln)))
            ops.append("bassign %s %s %d %d %d %s %s" % (name, d, ln, byte, off, " ".join(str(r.below(1 << w)) for w in ws), patterned(r, ln)))
        for k, w in enumerate(ws):
            for op in ARITH:
                for _ in range(reps):
                    byte, off, ln = place()
                    ops.append("barith %s %s %d %d %d %d %s %d %s" % (name, d, ln, byte, off, k, op, arith_arg(r, op, w), patterned(r, ln)))
        mult = 6 if name in BA_TIGHT else 1          # many candidate positions of tight carriers are out of contract and filtered away
        for kind in ("bcopy", "bswap"):
            for _ in range(8 * reps * mult):
                pa = r.below(24); gap = r.choice([0, 0, 1, r.below(20)])        # often directly adjacent pixels
                pb = pa + bs + gap
                if r.chance(1, 2): pa, pb = pb, pa
                ln = (max(pa, pb) + bs + 7) // 8 + (0 if r.chance(1, 2) else r.below(3))
                ops.append("%s %s %s %d %d %d %d %d %s" % (kind, name, d, ln, pa // 8, pa % 8, pb // 8, pb % 8, patterned(r, ln)))
        for _ in range(6 * reps * mult):
            count = r.choice([0, 1, 2, 3, r.below(12)]); byte, off, ln = place(max(count, 1))
            ops.append("bfill %s %s %d %d %d %d %s %s" % (name, d, ln, byte, off, count, " ".join(str(r.below(1 << w)) for w in ws), patterned(r, ln)))
            count = r.choice([0, 1, 2, r.below(9)]); ps = r.below(24); pd = ps + count * bs + r.choice([0, 0, 3, r.below(16)])
            if r.chance(1, 2): ps, pd = pd, ps
            ln = (max(ps, pd) + max(count, 1) * bs + 7) // 8 + (0 if r.chance(1, 2) else r.below(3))
            ops.append("bcpy %s %s %d %d %d %d %d %d %s" % (name, d, ln, ps // 8, ps % 8, pd // 8, pd % 8, count, patterned(r, ln)))
        for off in range(8):
            for n in range(-40, 41): ops.append("iadv %s %s %d %d" % (name, d, off, n))
            if th:
                for _ in range(200): ops.append("iadv %s %s %d %d" % (name, d, off, r.choice([r.range(-4000, 4000), r.range(-100000, 100000)])))
            # moves across the point where _bit_offset + n*bit_size leaves the int range (the narrowing removed by fix 30b4cc6)
            for sign in (1, -1):
                far = (2**31 - off) // bs
                for dlt in (-1, 0, 1, r.range(2, 1000)):
                    if abs((far + dlt) * bs) < 2**32 - 64: ops.append("iadv %s %s %d %d" % (name, d, off, sign * (far + dlt)))
            for k in (0, 1, 2, 3, 7, 8, 9, 40): ops.append("iinc %s %s %d %d" % (name, d, off, k))
    return [o for o in ops if in_contract(o)]

def route(op):
    w = op.split()
    if w[0] in ("ssweep", "sop"):
        W, N = int(w[1]), int(w[3])
        return "field1" if W == 8 else ("field2" if N <= 4 else "field3") if W == 16 else "field4"
    if w[0] in ("dsweep", "dop", "xdop", "pval"): return "field1"
    if w[1] in PP: return "pixel%d" % PP[w[1]][0]
    if w[1] in BA: return "pixel%d" % BA[w[1]][0]
    return "field1"

def nontrivial(op):
    w = op.split()
    if w[0] in ("ssweep", "dsweep"): return True                       # enumerates contents
    if w[0] in ("iadv", "iinc"): return int(w[-1]) != 0
    if w[0] in ("pval", "pctor"): return True
    buf = w[-1]                                                        # background neither all zeros nor all ones
    return buf.strip("0") != "" and buf.strip("f") != ""

def values_judged(op):
    w = op.split()
    if w[0] == "ssweep": return int(w[5])
    if w[0] == "dsweep": return int(w[7])
    return 1

def shrink_sweeps(ctx, bins):
    """a failing sweep names the index of the first failing content: re-run that single content and report it"""
    import re
    out = []
    for f in ctx.failures:
        w = f["op"].split(); m = re.search(r" i=(\d+)", f.get("clause", ""))
        if w[0] in ("ssweep", "dsweep") and m:
            i = int(m.group(1)); k = 4 if w[0] == "ssweep" else 6          # positions of c0 cnt v0 vstep
            N = int(w[3] if w[0] == "ssweep" else w[2])
            c0, v0, vs = int(w[k]), int(w[k + 2]), int(w[k + 3])
            w2 = list(w); w2[k], w2[k + 1], w2[k + 2], w2[k + 3] = str(c0 + i), "1", str((v0 + i * vs) % (1 << N)), "0"
            op = " ".join(w2); name = route(op)
            sub = copy.copy(ctx); sub.broken, sub.failures, sub.known_hits, sub.cov = [], [], [], {}
            if bins.get(name, (None,))[0] is not None:
                vlib.correspond(sub, bins[name][0], "drv_C08", [op], label="shrunk")
                if sub.failures: f = sub.failures[0]
        out.append(f)
        if len(out) >= 40: break
    ctx.failures[:len(out)] = out

BINARIES = [("field%d" % p, "harness/C08/field.cpp", p) for p in (1, 2, 3, 4)] + [("pixel%d" % p, "harness/C08/pixel.cpp", p) for p in (1, 2, 3, 4)]

ASSUME = [
    "little-endian byte order (the model assembles a BitField from its bytes little-endian; the harness runs on x86-64)",
    "channel values handed to operator=(integer_t) are in range (value <= max): larger values are out of contract (BOOST_ASSERT only), see theorem C08_unguarded_witness",
    "channel widths up to 64 bits with first_bit + NumBits inside the bit field; the harness instantiates widths 1..8, 10, 12, 16 and (64-bit fields) 24, 32",
    "same-type packed_pixel assignment is the compiler-generated copy of the bit field (padding bits of the value object are copied with it); the frame law for padding bits is judged for channel writes, cross-layout assignment, and every bit-aligned reference operation",
]

def run(ctx, ops=None):
    vlib.regen(ctx, C08_syms.NAMESPACE, C08_syms.SYMS)
    with concurrent.futures.ThreadPoolExecutor(max_workers=8) as ex:
        futs = {name: ex.submit(vlib.compile_harness, ctx, src, name, (), (), True, "-O0", ("PART=%d" % part,)) for name, src, part in BINARIES}
        obligations, discharged = vlib.standard_proof_steps(ctx)
        bins = {name: f.result() for name, f in futs.items()}
    ctx.log("proof steps and %d harness binaries ready" % len(bins))
    for name, (b, err) in bins.items():
        if b is None:
            ctx.broken.append(("harness", "compile " + name, err[-1500:])); ctx.log("harness %s does not compile:\n%s" % (name, err[-1500:]))
    ops = ops or (gen_field_ops(ctx) + gen_pixel_ops(ctx))
    groups = {}
    for o in ops: groups.setdefault(route(o), []).append(o)
    samples = []
    def one(name):
        sub = copy.copy(ctx); sub.broken, sub.failures, sub.known_hits, sub.cov = [], [], [], {}
        if bins[name][0] is None: return sub, [], []
        impl, model = vlib.correspond(sub, bins[name][0], "drv_C08", groups[name], label=name)
        return sub, impl, model
    with concurrent.futures.ThreadPoolExecutor(max_workers=7) as ex:
        results = {name: ex.submit(one, name) for name in groups}
        for name in sorted(groups):
            sub, impl, model = results[name].result()
            ctx.broken += sub.broken; ctx.failures += sub.failures
            for k in sub.known_hits:
                if k["id"] not in [x["id"] for x in ctx.known_hits]: ctx.known_hits.append(k)
            for key in ("evaluations", "correspondence_diffs", "harness_restarts"):
                ctx.cov[key] = ctx.cov.get(key, 0) + sub.cov.get(key, 0)
            if getattr(sub, "last_sanitizer_report", None): ctx.last_sanitizer_report = sub.last_sanitizer_report
            if impl:
                for i in (0, len(impl) // 2, len(impl) - 1):
                    samples.append({"op": groups[name][i][:160], "impl": impl[i][:120], "model": model[i][:120]})
    shrink_sweeps(ctx, bins)
    kinds = {}
    for o in ops: kinds[o.split()[0]] = kinds.get(o.split()[0], 0) + 1
    distinct = len({o for o in ops if nontrivial(o)})
    judged = sum(values_judged(o) for o in ops)
    return vlib.finish(ctx, "proof", obligations, discharged,
        rule="op lines (harness/C08/*.cpp): complete content sweeps (all 256 / all 65536 contents) of 8- and 16-bit fields for every first bit and channel width "
             "(compile-time and run-time first-bit references), 256..4096-content windows for 32/64-bit fields, every proxy operation on random and patterned backgrounds, "
             "packed pixels and bit-aligned references (17 configurations) at every bit offset with tight and roomy buffers, adjacent-pixel copy/swap, fill/copy runs, "
             "iterator advance for every offset 0..7 and n in [-40,40]; non-trivial = distinct op line that enumerates contents, or whose background is neither all zeros nor all ones, or (iterators) n != 0",
        samples=samples, distinct_nontrivial=distinct, assumptions=ASSUME, trusted_base=vlib.TRUSTED_BASE,
        extra={"values_judged": judged, "ops_by_kind": kinds,
               "exhaustive_domains": ["all 2^8 contents x every (first,width) of an 8-bit field (static and run-time first bit)",
                                      "all 2^16 contents x every (first,width<=8,10,12,16) of a 16-bit field (static reference)",
                                      "all 2^16 contents x every (first 0..7, width 1..8) of a 16-bit field (run-time first-bit reference)",
                                      "iterator advance: every offset 0..7 x n in [-40,40] x 17 pixel configurations"]},
        exhaustive=False)

def replay(ctx, path):
    rp = json.load(open(path))
    ops = rp.get("op_lines") or []
    if not ops: return run(ctx)
    return run(ctx, ops=ops)
