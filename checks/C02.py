"""C02 -- view transformations are exact, copy-free coordinate remappings (DESIGN.md section 5, C02)"""
import json, concurrent.futures
import vlib, C02_syms

# kind -> (harness group, PAD granularity, channels (0 = no channel views), can colour-convert, bit kind)
KINDS = {
    "g8": (1, 1, 1, False), "rgb8": (1, 1, 3, True), "rgba8": (2, 1, 4, False), "rgb16": (2, 2, 3, False),
    "rgb32f": (3, 4, 3, False), "p565": (3, 2, 0, False), "s8": (4, 1, 3, True), "v": (4, 1, 0, False),
    "pl8": (5, 1, 3, True), "pl16": (5, 2, 3, False),
    "b1": (6, 1, 0, False), "b2": (6, 1, 0, False), "b4": (6, 1, 0, False),
    "b3": (7, 1, -3, False), "b6": (7, 1, -3, False), "b12": (7, 1, -3, False),      # negative: kth_channel_view only
}
BIT = {"b1", "b2", "b3", "b4", "b6", "b12"}
GROUPS = sorted({v[0] for v in KINDS.values()})
DIHEDRAL = ["U", "L", "T", "R", "C", "I"]

def xf_dims(t, w, h):
    c = t[0]
    if c in "ULINKXYZ": return w, h
    if c in "TRC": return h, w
    if c == "S": sx, sy = map(int, t[1:].split(",")); return (w + sx - 1) // sx, (h + sy - 1) // sy
    if c == "B": a = list(map(int, t[1:].split(","))); return a[2], a[3]
    raise ValueError(t)

def rand_geo(r, w, h):
    c = r.choice("ULTRCISSBB")
    if c == "S": return "S%d,%d" % (r.range(1, 3), r.range(1, 3))
    if c == "B":
        x0 = r.range(0, max(w - 1, 0)); y0 = r.range(0, max(h, 0))
        return "B%d,%d,%d,%d" % (x0, y0, r.range(0, max(w - x0, 0)), r.range(0, max(h - y0, 0)))
    return c

def rand_ops(r, kind, W, H, depth, allow_empty_width):
    """a composition valid for the factories; unless allow_empty_width, stops once the width is 0
       (every factory asserts on such views: those ops are generated separately)"""
    nch, canx = KINDS[kind][2], KINDS[kind][3]
    ts, w, h = [], W, H
    chan = None
    if nch > 0 and r.chance(1, 4): chan = "N%d" % r.range(0, nch - 1)
    pos = r.range(0, depth)
    for i in range(depth):
        if chan and chan[0] == "N" and i == pos and (w > 0 and h > 0 or allow_empty_width): ts.append(chan); chan = None
        if w <= 0 and not allow_empty_width: break
        t = rand_geo(r, w, h); ts.append(t); w, h = xf_dims(t, w, h)
    if chan and (w > 0 and h > 0 or allow_empty_width): ts.append(chan)
    elif not any(t[0] == "N" for t in ts):
        if nch != 0 and r.chance(1, 6) and (w > 0 and h > 0 or allow_empty_width or nch < 0): ts.append("K%d" % r.range(0, 2)) if abs(nch) == 3 else None
        elif canx and r.chance(1, 6): ts.append(r.choice(["X", "X", "Y"]))
    return ("/".join(ts) if ts else "-"), w, h

def op_line(r, kind, W, H, ops, w, h, pad=None, word="xf"):
    g = KINDS[kind][1]
    if kind == "v": PAD, OFF = r.range(0, 40), r.range(0, 7)
    else:
        PAD = (r.choice([0, 0, 1, 2, 3, 5, 8]) if pad is None else pad) * g
        OFF = r.range(0, 7) if kind in BIT else 0
    wx, wy = (r.range(0, w - 1) if w > 0 else 0), (r.range(0, h - 1) if h > 0 else 0)
    return "%s %s %d %d %d %d %s %d %d" % (word, kind, W, H, PAD, OFF, ops, wx, wy)

def gen_ops(ctx):
    r, th = ctx.rng, ctx.thorough()
    N = 16 if th else 6
    ops = []
    for kind in KINDS:
        # every shape: identity and each single transformation family
        for W in range(0, N + 1):
            for H in range(0, N + 1):
                if th and W * H > 100 and r.chance(3, 4): continue
                ops.append(op_line(r, kind, W, H, "-", W, H, pad=0))
                if W > 0:
                    t = r.choice(DIHEDRAL); w, h = xf_dims(t, W, H)
                    ops.append(op_line(r, kind, W, H, t, w, h))
        # the dihedral group table: every pair (quick) / every triple on a few shapes (thorough)
        for (W, H) in ((3, 2), (1, 4), (4, 4)) + (((5, 3), (2, 7)) if th else ()):
            for a in DIHEDRAL:
                for b in DIHEDRAL:
                    w, h = xf_dims(b, *xf_dims(a, W, H))
                    ops.append(op_line(r, kind, W, H, a + "/" + b, w, h))
                    if th:
                        for c in DIHEDRAL:
                            w2, h2 = xf_dims(c, w, h)
                            ops.append(op_line(r, kind, W, H, a + "/" + b + "/" + c, w2, h2))
        # random compositions (with channel views / colour conversion where the kind has them)
        for _ in range(5000 if th else 300):
            W, H = r.range(0, N), r.range(0, N)
            o, w, h = rand_ops(r, kind, W, H, r.range(1, 5 if th else 3), r.chance(1, 8))
            ops.append(op_line(r, kind, W, H, o, w, h))
        # chains built by ASSIGNMENT into already constructed views (`xa`): every dihedral pair + subsample / subimage on two shapes, random compositions
        for (W, H) in ((3, 2), (4, 4)):
            for a in DIHEDRAL + ["S2,3", "S1,2", "B1,0,2,2"]:
                for b in DIHEDRAL + ["S2,1"]:
                    w, h = xf_dims(b, *xf_dims(a, W, H))
                    ops.append(op_line(r, kind, W, H, a + "/" + b, w, h, word="xa"))
        for _ in range(1000 if th else 80):
            W, H = r.range(1, N), r.range(1, N)
            o, w, h = rand_ops(r, kind, W, H, r.range(1, 5 if th else 3), False)
            ops.append(op_line(r, kind, W, H, o, w, h, word="xa"))
        # stateful colour converter Z<off> (default-constructed = identity) as the last op of a random composition
        if KINDS[kind][3]:
            for _ in range(300 if th else 40):
                W, H = r.range(1, N), r.range(1, N)
                ts, w, h = [], W, H
                for _ in range(r.range(0, 2)):
                    t = rand_geo(r, w, h); ts.append(t); w, h = xf_dims(t, w, h)
                    if w <= 0 or h <= 0: break
                ops.append(op_line(r, kind, W, H, "/".join(ts + ["Z%d" % r.range(1, 255)]), w, h))
        # dereference-adaptor views in the middle of a chain (rgb8): stateful converter / channel n >= 1 of a colour-converted view, then every transformation
        if kind == "rgb8":
            for (W, H) in ((4, 2), (3, 3), (1, 4)) + (((5, 4), (2, 6)) if th else ()):
                for t in DIHEDRAL + ["S2,1", "S1,2", "B0,0,%d,%d" % (W, H - 1)]:
                    w, h = xf_dims(t, W, H)
                    for pre in ("Z%d" % r.range(1, 255), "X/N%d" % r.range(1, 2), "Z%d/N%d" % (r.range(1, 255), r.range(0, 2)), "X"):
                        for word in ("xf", "xa"):
                            ops.append(op_line(r, kind, W, H, pre + "/" + t, w, h, word=word))
                    ops.append(op_line(r, kind, W, H, "%s/Z%d/N%d" % (t, r.range(1, 255), r.range(1, 2)), w, h))
                    ops.append(op_line(r, kind, W, H, "%s/X/K%d" % (t, r.range(1, 2)), w, h))
                    ops.append(op_line(r, kind, W, H, "Z%d/%s/K%d" % (r.range(1, 255), t, r.range(0, 2)), w, h))
            for _ in range(2000 if th else 150):
                W, H = r.range(1, N), r.range(1, N)
                ts, w, h = [], W, H
                ad = ["Z%d" % r.range(1, 255) if r.chance(2, 3) else "X"] + (["N%d" % r.range(0, 2)] if r.chance(1, 2) else [])
                pos = r.range(0, 2)
                for i in range(r.range(1, 3)):
                    if i == pos: ts += ad; ad = []
                    if w <= 0 or h <= 0: break
                    t = rand_geo(r, w, h); ts.append(t); w, h = xf_dims(t, w, h)
                ts += ad
                ops.append(op_line(r, kind, W, H, "/".join(ts), w, h, word=r.choice(["xf", "xf", "xa"])))
        # the three compositions the pre-fix virtual locator got wrong + subsample/subimage edge shapes
        for o in ("T/U", "T/S2,1", "R/R", "T/L", "C/S1,2", "T/I", "R/U/C"):
            W, H = 4, 3
            w, h = W, H
            for t in o.split("/"): w, h = xf_dims(t, w, h)
            ops.append(op_line(r, kind, W, H, o, w, h))
        # empty views: every factory / channel view (channel views of empty views abort in assert-enabled builds: known finding)
        for H in (0, 2):
            for t in DIHEDRAL + ["S2,2", "B0,0,0,0"] + (["N0"] if KINDS[kind][2] > 0 else []):
                ops.append(op_line(r, kind, 0, H, t, 0, 0, pad=0))
        if KINDS[kind][2] > 0: ops.append(op_line(r, kind, 3, 0, "N0", 3, 0, pad=0))
    return ops

def group_of(op): return KINDS[op.split()[1]][0]

def nontrivial(op):
    w = op.split()
    return int(w[2]) * int(w[3]) > 1 and w[6] != "-"

ASSUME = [
    "ptrdiff_t arithmetic does not overflow (coordinates, steps and offsets are unbounded Int in the model)",
    "the dereference adaptor of color_converted_view / kth_channel_view on non-basic views is observed (value = f(source pixel at the mapped coordinates)); "
    "C02_deref_adaptor states its composition law over a model in which the factories keep the dereference function (add_deref)",
    "where channel n of a pixel lives (n*sizeof(channel) inside an interleaved pixel, plane n of a planar one) is C++ object layout: hand-modelled (chanAddr), observed",
    "planar views: each plane is addressed with the same offsets (observed through the write test on all planes)",
    "kth_channel_view of a packed_pixel view does not compile and is therefore outside the observed set",
]

def run(ctx, ops=None):
    vlib.regen(ctx, C02_syms.NAMESPACE, C02_syms.SYMS, C02_syms.extra_header(ctx.include))
    obligations, discharged = vlib.standard_proof_steps(ctx)
    with concurrent.futures.ThreadPoolExecutor(len(GROUPS)) as ex:
        futs = {g: ex.submit(vlib.compile_harness, ctx, "harness/C02/main.cpp", "C02_g%d" % g, (), (), True, "-O0", ["KGROUP=%d" % g]) for g in GROUPS}
        bins = {g: f.result() for g, f in futs.items()}
    samples, distinct = [], 0
    bad = [(g, e) for g, (b, e) in bins.items() if b is None]
    if bad:
        for g, e in bad:
            ctx.broken.append(("harness", "compile group %d" % g, e[-1500:])); ctx.log("harness group %d does not compile:\n%s" % (g, e[-1500:]))
    else:
        ops = ops or gen_ops(ctx)
        ctx.log("generated %d op lines" % len(ops))
        def one(g):
            sub = [o for o in ops if group_of(o) == g]
            return g, sub
        for g in GROUPS:
            sub = [o for o in ops if group_of(o) == g]
            if not sub: continue
            impl, model = vlib.correspond(ctx, bins[g][0], "drv_C02", sub, label="group %d" % g)
            for i in (0, len(sub) // 2):
                samples.append({"op": sub[i][:160], "impl": impl[i][:200], "model": model[i][:200]})
        distinct = len({o for o in ops if nontrivial(o)})
        dist = {}
        for o in ops:
            k = "depth%d" % (0 if o.split()[6] == "-" else len(o.split()[6].split("/")))
            dist[k] = dist.get(k, 0) + 1
        ctx.cov["input_distribution"] = dist
    return vlib.finish(ctx, "proof", obligations, discharged,
        rule="op lines `xf kind W H PAD OFF ops wx wy` (and `xa`: the same chain built by ASSIGNMENT into already constructed views) over 16 source kinds (pointer interleaved 1/3/4/6/12-byte, packed 565, step, planar 8/16, "
             "virtual, bit-aligned 1/2/3/4/6/12 bits): every shape w,h in 0..N, the full dihedral pair table, random compositions (depth <= 3 / 5) of "
             "flip/rotate/transpose/subimage/subsample with nth_channel / kth_channel / color_converted (stateless and STATEFUL converters; for rgb8 also in the middle of a chain, "
             "channel views of colour-converted views) where the kind has them; each op reads every pixel of the derived view (identity tag + address) through view(x,y) and "
             "seven other access paths (incl. a default-constructed locator assigned from xy_at) and performs one all-bits write through it; non-trivial = more than one source pixel and at least one transformation",
        samples=samples, distinct_nontrivial=distinct, assumptions=ASSUME, trusted_base=vlib.TRUSTED_BASE,
        extra={"input_distribution": ctx.cov.get("input_distribution", {}), "view_kinds": sorted(KINDS)})

def replay(ctx, path):
    rp = json.load(open(path))
    ops = rp.get("op_lines") or []
    if not ops: return run(ctx)
    return run(ctx, ops=ops)
