"""C09 -- default colour conversion keeps neutrals, range and order and composes soundly (DESIGN.md section 5, C09)"""
import json, struct
import vlib, parcorr, C09_syms

LAYOUTS = {"gray": ("gray", 1), "rgb": ("rgb", 3), "bgr": ("rgb", 3), "rgba": ("rgba", 4), "bgra": ("rgba", 4),
           "argb": ("rgba", 4), "abgr": ("rgba", 4), "cmyk": ("cmyk", 4)}
CANON = ["gray", "rgb", "rgba", "cmyk"]
DEPTHS = ["8", "16", "32f"]
# index of each pixel type in harness/C09/main.cpp (decides which translation unit converts FROM it)
ORDER = [l + d for d in DEPTHS for l in ["gray", "rgb", "bgr", "rgba", "bgra", "argb", "abgr", "cmyk"]]
NGROUPS = 12
ONE = 0x3f800000

def f32bits(x): return struct.unpack("<I", struct.pack("<f", x))[0]
def maxv(d): return {"8": 255, "16": 65535, "32f": ONE}[d]

def rand_chan(r, d):
    m = maxv(d)
    k = r.below(10)
    if k == 0: return 0
    if k == 1: return m
    if d == "32f":
        if k == 2: return f32bits(r.below(256) / 255.0)
        return r.below(ONE + 1)
    if k == 2: return min(m, max(0, m // 2 + r.range(-2, 2)))
    return r.below(m + 1)

def special_pixels(n, d):
    m = maxv(d); mid = f32bits(0.5) if d == "32f" else m // 2
    base = [[0] * n, [m] * n, [mid] * n]
    if n == 4: base += [[0, 0, 0, m], [m, m, m, 0], [mid, 0, m, m], [m, mid, 0, mid], [0, 0, 0, mid]]
    if n == 3: base += [[m, 0, 0], [0, m, 0], [0, 0, m], [mid, m, 0]]
    return base

def gen_ops(ctx):
    r, th, ops = ctx.rng, ctx.thorough(), []
    nrand = 400 if th else 40
    # 1. every ordered pair of pixel types the harness instantiates: all layouts of equal depth, canonical layouts across depths
    for s in ORDER:
        sl = s.rstrip("0123456789f"); sd = s[len(sl):]
        for t in ORDER:
            tl = t.rstrip("0123456789f"); td = t[len(tl):]
            if not (sd == td or (sl in CANON and tl in CANON)): continue
            n = LAYOUTS[sl][1]
            px = special_pixels(n, sd) + [[rand_chan(r, sd) for _ in range(n)] for _ in range(nrand)]
            if LAYOUTS[sl][0] == "rgb": px += [[v] * 3 for v in ([0, 1, 127, 128, 254, 255] if sd == "8" else [rand_chan(r, sd) for _ in range(4)])]
            for p in px: ops.append("cc %s %s %s" % (s, t, " ".join(map(str, p))))
    # 2. cmyk8 axes: each channel swept over all 256 values with the others on a 3-level grid -> rgb8, gray8, rgba8
    for axis in range(4):
        others = [(a, b, c) for a in (0, 128, 255) for b in (0, 128, 255) for c in (0, 128, 255)]
        for o in (others if th else others[::2]):
            for v in range(256):
                p = list(o); p.insert(axis, v)
                for t in ("rgb8", "gray8") + (("rgba8",) if th else ()): ops.append("cc cmyk8 %s %d %d %d %d" % ((t,) + tuple(p)))
    # 3. gray8 -> everything, all 256 values; rgb8 greys -> gray8
    for v in range(256):
        for t in ("rgb8", "rgba8", "cmyk8", "gray16", "rgb16", "bgr8"): ops.append("cc gray8 %s %d" % (t, v))
        ops.append("cc rgb8 gray8 %d %d %d" % (v, v, v)); ops.append("cc bgr8 gray8 %d %d %d" % (v, v, v))
    # 4. luminance along each axis (monotone, within one unit), all depth pairs
    for sd in DEPTHS:
        for td in DEPTHS:
            for axis in range(3):
                for _ in range(12 if th else 3):
                    base = [rand_chan(r, sd) for _ in range(3)]; base[axis] = 0
                    if sd == "8": n, step = 256, 1
                    elif sd == "16": n = 512; step = 65535 // n
                    else: n = 512; step = ONE // n
                    ops.append("lumax %s %s %d %d %d %d %d %d" % (sd, td, axis, base[0], base[1], base[2], n, step))
                if sd == "16":     # windows of consecutive 16-bit values
                    for _ in range(8 if th else 2):
                        base = [rand_chan(r, sd) for _ in range(3)]; base[axis] = r.below(65535 - 600)
                        ops.append("lumax %s %s %d %d %d %d 600 1" % (sd, td, axis, base[0], base[1], base[2]))
    # 5. view / algorithm agreement on small images
    for s in ORDER:
        sl = s.rstrip("0123456789f"); sd = s[len(sl):]
        for t in ORDER:
            tl = t.rstrip("0123456789f"); td = t[len(tl):]
            ok = (sd == td and sl in CANON and tl in CANON) or (sd == "8" and td == "8" and (s == "rgb8" or t == "rgb8"))
            if not ok: continue
            for _ in range(6 if th else 2):
                w, h = r.range(1, 5), r.range(1, 4)
                vals = [rand_chan(r, sd) for _ in range(r.range(3, 23))]
                ops.append("ccv %s %s %d %d %s" % (s, t, w, h, " ".join(map(str, vals))))
    # 6. the double-scale table of rgb8 -> cmyk8: all 255 rows of the real code against the table the theorems are about
    for k in range(255): ops.append("cmykrow %d" % k)
    # 7. exhaustive planes: all 2^24 rgb8 pixels (256 planes), rgba8 (r,a) planes for several (g,b)
    ops += het_ops(ctx)
    planes = list(range(256))
    for rr in planes: ops.append("sweep8 %d" % rr)
    gb = [(0, 0), (255, 255), (128, 64), (1, 254)] + [(r.below(256), r.below(256)) for _ in range(28 if th else 4)]
    for g, b in gb: ops.append("sweepA %d %d" % (g, b))
    return ops

def group_of(op):
    w = op.split()
    if w[0] in ("cc", "ccv"): return ORDER.index(w[1]) % NGROUPS if w[1] in ORDER else 0
    return (int(w[1]) if w[0] in ("sweep8", "cmykrow") else len(op)) % NGROUPS

def nontrivial(op):
    w = op.split()
    if w[0] in ("cc", "ccv"): return w[1] != w[2]
    return True

ASSUME = [
    "16-bit and float32 colour conversions and rgb->cmyk (double scale factor): partial (float) -- the Lean model reproduces the IEEE operation sequence "
    "(bit-exact correspondence); the theorems cover the 8-bit and 16-bit integer kernels; the float32 luminance (rgb16 -> gray16, rgb32f -> gray32f) is proved RELATIVE TO FloatSpec "
    "(Props/C09Float.lean, C09_float_*: monotone, black/white/gray exact for 16 bit, range, error < 1 unit; trusted: the target's binary32 arithmetic satisfies FloatSpec with eps = 2^-24, "
    "no FMA; abstract model with the genuine binary32 instance evaluated by the Lean kernel on sampled lumax ops); everything else float is judged on the real code's output by the Spec",
    "colour spaces outside {gray, rgb, rgba, cmyk} and channel types outside {uint8_t, uint16_t, float32_t} are outside the claim; layouts bgr/bgra/argb/abgr are exercised for equal-depth conversions",
    "float32 source channels are drawn from [0,1]",
]

def expand_sweep(op, impl):
    """per-pixel ops for a plane whose sweep failed (hash differs or a Spec failure was counted)"""
    w = op.split(); out = []
    if w[0] == "sweep8":
        r = int(w[1])
        for g in range(256):
            for b in range(256):
                out.append("cc rgb8 gray8 %d %d %d" % (r, g, b)); out.append("cc rgb8 cmyk8 %d %d %d" % (r, g, b))
        for g in range(0, 256, 5):
            for b in range(0, 256, 5):
                for axis, base in ((0, (0, g, b)), (1, (r, 0, b)), (2, (r, g, 0))): out.append("lumax 8 8 %d %d %d %d 256 1" % ((axis,) + base))
    else:
        g, b = int(w[1]), int(w[2])
        for r in range(256):
            for a in range(256):
                for t in ("rgb8", "gray8", "cmyk8"): out.append("cc rgba8 %s %d %d %d %d" % (t, r, g, b, a))
    return out

def abstract_tie(ctx, ops, impl):
    """tie of the ABSTRACT float luminance of Props/C09Float (Lemmas/C09Float: lumF, lum16; toF/fromF of C06) to the real code:
    instantiated with the genuine IEEE rounding FloatSpec.binary32 and evaluated by the Lean kernel, it must return what
    color_convert returned on a seeded sample of this run's rgb -> gray conversions of 16-bit / float32 channels (lumax ops)"""
    r = ctx.rng
    cand = [(o, obs) for o, obs in zip(ops, impl) if o.startswith("lumax ") and o.split()[1] in ("16", "32f") and o.split()[2] in ("16", "32f")]
    claims = {"ℤ": [], "ℚ": []}
    for _ in range(min(len(cand), 160 if ctx.thorough() else 48)):
        o, obs = cand[r.below(len(cand))]
        w = o.split(); sd, td, axis, n, step = w[1], w[2], int(w[3]), int(w[7]), int(w[8])
        base = [int(w[4]), int(w[5]), int(w[6])]
        try: vals = [int(x) for x in obs.split("|")[0].split()]
        except ValueError: continue
        if len(vals) != n: continue
        for i in {0, n - 1, r.below(n), r.below(n)}:
            px = list(base); px[axis] += i * step
            if sd == "16": ch = ["(toF FloatSpec.binary32 65535 %d)" % c for c in px]
            else: ch = [vlib.f32_to_rat(c) for c in px]
            y = "lumF FloatSpec.binary32 %s %s %s" % tuple(ch)
            tag = o + " @%d" % i
            if sd == "16" and td == "16": claims["ℤ"].append(("lum16 FloatSpec.binary32 %d %d %d" % tuple(px), str(vals[i]), tag))
            elif td == "16": claims["ℤ"].append(("fromF FloatSpec.binary32 65535 (%s)" % y, str(vals[i]), tag))
            else: claims["ℚ"].append((y, vlib.f32_to_rat(vals[i]), tag))
    for typ, cl in claims.items():
        cl = list({c[0]: c for c in cl}.values())
        vlib.kernel_tie(ctx, "C09Float-" + ("int" if typ == "ℤ" else "rat"), ["GilVerif.Props.C09Float"],
                        ["GilVerif", "GilVerif.Lemmas.C06Float", "GilVerif.Lemmas.C09Float"], typ, cl)

def regen_c06(ctx):
    """the heterogeneous-pixel part of the model converts each channel with C06's packed converters (Model/C06.lean over
    Gen/C06.lean): regenerate that file from the tree under test too, so that the C09 model follows the current source"""
    import cxx2lean, C06_syms, os
    ok, errs, changed = cxx2lean.generate(C06_syms.NAMESPACE, C06_syms.SYMS, ctx.include, os.path.join(ctx.lean, "GilVerif/Gen/C06.lean"))
    if not ok:
        for name, err in errs: ctx.broken.append(("translator", "C06." + name, err))
    elif changed: ctx.notes.append("generated file GilVerif/Gen/C06.lean changed on this run")

HET = {"rgb565": (5, 6, 5), "bgr565": (5, 6, 5), "rgb332": (3, 3, 2), "ba332": (3, 3, 2), "ba565": (5, 6, 5)}

def het_ops(ctx):
    """heterogeneous rgb pixels (channels of different depths): every gray value into every such destination, packed sources to rgb8 / gray8"""
    r, th, ops = ctx.rng, ctx.thorough(), []
    for d in HET:
        for v in range(256): ops.append("cch gray8 %s %d" % (d, v))
        full16 = th          # quick tier: every 61st value plus the edges (all 65536 values in the thorough tier)
        for v in (range(65536) if full16 else list(range(0, 65536, 61)) + [65535, 32768, 255, 256, 257, 65534]): ops.append("cch gray16 %s %d" % (d, v))
        for _ in range(4000 if th else 600): ops.append("cch rgb8 %s %d %d %d" % (d, r.below(256), r.below(256), r.below(256)))
        for v in (0, 8, 128, 255): ops.append("cchA gray8 %s %d" % (d, v))          # the build with assertions
    for s_, ws in HET.items():
        n = [2 ** w for w in ws]
        allpx = [(a, b, c) for a in range(n[0]) for b in range(n[1]) for c in range(n[2])]
        if len(allpx) > 256 and not th:
            allpx = [allpx[r.below(len(allpx))] for _ in range(3000)] + [(0, 0, 0), (n[0] - 1, n[1] - 1, n[2] - 1)]
        for d in ("rgb8", "gray8"):
            for p in allpx: ops.append("cch %s %s %d %d %d" % ((s_, d) + p))
    return ops

def run(ctx, ops=None):
    vlib.regen(ctx, C09_syms.NAMESPACE, C09_syms.SYMS)
    regen_c06(ctx)
    obligations, discharged = vlib.standard_proof_steps(ctx, extra_props=["GilVerif.Props.C09Float"])
    bins = parcorr.compile_parallel(ctx, [dict(src_rel="harness/C09/main.cpp", name="C09_g%d" % g,
                                               defines=["C09_GROUP=%d" % g, "C09_NGROUPS=%d" % NGROUPS]) for g in range(NGROUPS)]
                                         + [dict(src_rel="harness/C09/hetero.cpp", name="C09_het_ndebug", defines=["NDEBUG"]),
                                            dict(src_rel="harness/C09/hetero.cpp", name="C09_het_assert")])
    het_ndebug, het_assert = bins[NGROUPS], bins[NGROUPS + 1]
    samples, distinct, pixels = [], 0, 0
    bad = [e for b, e in bins if b is None]
    if bad:
        ctx.broken.append(("harness", "compile", bad[0][-1500:])); ctx.log("harness does not compile:\n" + bad[0][-1500:])
    else:
        ops = ops or gen_ops(ctx)
        def jobs_for(ops):
            by_group = {}
            for o in ops:
                if not o.startswith("cch"): by_group.setdefault(group_of(o), []).append(o)
            jobs = parcorr.chunks(het_ndebug[0], [o for o in ops if o.startswith("cch ")], 8000) \
                 + parcorr.chunks(het_assert[0], [o for o in ops if o.startswith("cchA ")], 8000)
            for g in sorted(by_group):
                heavy = [o for o in by_group[g] if o.startswith("sweep")]; light = [o for o in by_group[g] if not o.startswith("sweep")]
                jobs += parcorr.chunks(bins[g][0], heavy, 4) + parcorr.chunks(bins[g][0], light, 4000)
            return jobs
        ops, impl, model = parcorr.correspond_parallel(ctx, "drv_C09", jobs_for(ops))
        # a failed sweep is not yet a counterexample: expand the plane into single-pixel ops judged by the full Spec
        sweeps = [f for f in ctx.failures if f["op"].startswith("sweep")]
        if sweeps:
            ctx.failures = [f for f in ctx.failures if not f["op"].startswith("sweep")]
            extra = []
            for f in sweeps[:3]:
                ctx.log("sweep failed (%s): expanding %s into single-pixel ops" % (f["clause"], f["op"]))
                extra += expand_sweep(f["op"], f["impl"])
            o2, i2, m2 = parcorr.correspond_parallel(ctx, "drv_C09", jobs_for(extra), label="expanded sweep")
            ops += o2; impl += i2; model += m2
            if not ctx.failures:
                ctx.broken.append(("correspondence", sweeps[0]["op"], "sweep verdict %s but no single pixel of the plane fails the Spec" % sweeps[0]["clause"]))
        if discharged == obligations and not ctx.failures: abstract_tie(ctx, ops, impl)
        distinct = len({o for o in ops if nontrivial(o)})
        pixels = sum(65536 if o.startswith("sweep") else (int(o.split()[7]) if o.startswith("lumax") else (256 - int(o.split()[1]) if o.startswith("cmykrow") else 1)) for o in ops)
        ctx.cov["pixels_judged"] = pixels
        ctx.cov["type_pairs"] = len({(o.split()[1], o.split()[2]) for o in ops if o.startswith("cc")})
        for i in (0, len(ops) // 3, 2 * len(ops) // 3, len(ops) - 1):
            samples.append({"op": ops[i][:120], "impl": impl[i][:160], "model": model[i][:160]})
    n8 = len([o for o in (ops or []) if o.startswith("sweep8")])
    return vlib.finish(ctx, "proof", obligations, discharged,
        rule="op lines: cc (one pixel, every ordered pair of 24 pixel types that shares a depth or uses canonical layouts; special + random pixels; cmyk8 axes; all gray8 values), "
             "lumax (rgb->gray along one channel, all depth pairs), ccv (color_converted_view / copy_and_convert_pixels on small images), "
             "cch (heterogeneous rgb pixels rgb565 bgr565 rgb332 and bit-aligned ba332 ba565: every gray8 value and gray16 values into each, rgb8 into each, packed sources to rgb8 / gray8; cchA = same op on the build with assertions), sweep8 r (all 65536 rgb8 pixels of plane r: gray8, cmyk8 and back; all 256 planes = all 2^24 pixels), sweepA g b (all 65536 (r,a) of rgba8); "
             "non-trivial = source and destination pixel types differ, or a sweep/lumax op (distinct op lines counted)",
        samples=samples, distinct_nontrivial=distinct, assumptions=ASSUME, trusted_base=vlib.TRUSTED_BASE,
        extra={"pixels_judged": pixels, "type_pairs": ctx.cov.get("type_pairs", 0), "rgb8_planes_swept": n8,
               "exhaustive_domains": ["all 2^24 rgb8 pixels -> gray8, cmyk8 -> rgb8 (judge recomputes every output in Lean; implementation plane accepted by hash equality)",
                                      "all 65536 (r,a) of rgba8 for each listed (g,b)", "all 256 gray8 values", "cmyk8 axes on a 3-level grid",
                                      "all 32895 entries of the rgb8->cmyk8 scale table (real code == table of Model/C09Table.lean)"]},
        exhaustive=False)

def replay(ctx, path):
    rp = json.load(open(path))
    ops = rp.get("op_lines") or []
    if not ops: return run(ctx)
    return run(ctx, ops=ops)
