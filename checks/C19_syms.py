"""translator whitelist for C19: the per-channel bin computation of histogram::fill (`ch = ch / bin_width`) for every channel type of the harness, and the two expressions of the dense pre-fill loop (detail::filler<1>)"""
from cxx2lean import Sym
H = "boost/gil/histogram.hpp"
CT = {"u8": "uint8_t", "i8": "int8_t", "u16": "uint16_t", "i16": "int16_t"}
SYMS = []
for s, S in CT.items():
    # the body of the lambda `[&](channel_t& ch) { ch = ch / bin_width; }` as a mutator of `ch` (a named temporary is fine)
    SYMS.append(Sym(H, r"static_for_each\(scaled_px, \[&\]\(channel_t& ch\)", "scale_%s" % s, [("ch", S), ("bin_width", "std::size_t")], ret=None,
                    outputs=["ch"], subst=[(r"static_cast<channel_t>", "static_cast<%s>" % S), (r"auto const", "std::ptrdiff_t"), (r"\bauto\b", "std::ptrdiff_t")],
                    doc="histogram::fill: `ch = ch / bin_width` for channel type %s (signed division since fix 1570f66)" % S))
for t, T in (("int", "int"), ("u8", "uint8_t")):
    SYMS.append(Sym(H, r"for \(auto i = std::get<0>\(lower\); (static_cast<std::size_t>\(std::get<0>\(upper\) - i\) >= bin_width); i \+= bin_width\)",
                    "prefill_cond_%s" % t, [("i", T), ("upper", T), ("bin_width", "std::size_t")], ret="bool", expr=True,
                    subst=[(r"std::get<0>\(upper\)", "upper")], doc="detail::filler<1>: loop condition, key type %s" % T))
    SYMS.append(Sym(H, r"hist\((i / width)\) \+= 0;", "prefill_key_%s" % t, [("i", T), ("width", "std::ptrdiff_t")], ret=T, expr=True,
                    doc="detail::filler<1>: key that is created inside the loop (width = static_cast<std::ptrdiff_t>(bin_width)), key type %s" % T))
NAMESPACE = "GilVerif.Gen.C19"
