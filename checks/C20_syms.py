"""translator whitelist for C20 (integer kernels of the rasterizers: loop BODIES and point_count;
the loops themselves are hand-modelled in Model/C20.lean around these generated bodies)"""
from cxx2lean import Sym
L = "boost/gil/extension/rasterization/line.hpp"
C = "boost/gil/extension/rasterization/circle.hpp"
E = "boost/gil/extension/rasterization/ellipse.hpp"
PD, LL, U = "std::ptrdiff_t", "long long", "unsigned int"

ELL_STATE = [("x", PD), ("y", PD), ("t8", LL), ("t9", LL), ("d1", LL), ("d2", LL)]
ELL_CONST = [("t2", LL), ("t3", LL), ("t5", LL), ("t6", LL)]

SYMS = [
    # bresenham_line_rasterizer::point_count()
    Sym(L, r"std::ptrdiff_t point_count\(\) const noexcept", "line_point_count",
        [("sx", PD), ("sy", PD), ("ex", PD), ("ey", PD)], ret=PD,
        subst=[(r"const auto", "std::ptrdiff_t const"), (r"end_point\.x", "ex"), (r"end_point\.y", "ey"),
               (r"start_point\.x", "sx"), (r"start_point\.y", "sy")],
        doc="bresenham_line_rasterizer::point_count()"),
    # midpoint_circle_rasterizer::operator(): body of the for loop (minus the output call) -> new y_current
    Sym(C, r"for \(std::ptrdiff_t x = 1; x < iteration_distance; \+\+x\)", "mid_body",
        [("x", PD), ("y_current", PD), ("r_squared", PD)], outputs=["y_current"],
        subst=[(r"translate_mirror_points\(\{x, y_current\}\);", "")],
        doc="midpoint_circle_rasterizer: one iteration of the loop, returns the new y_current"),
    # midpoint_ellipse_rasterizer::obtain_trajectory(): initial values
    Sym(E, r"long long int const t1 = ([^;]*);", "ell_t1", [("a", U)], ret=LL, expr=True,
        subst=[(r"semi_axes\[0\]", "a")], doc="t1 = semi_axes[0] * semi_axes[0] (unsigned int product, then long long)"),
    Sym(E, r"long long int const t4 = ([^;]*);", "ell_t4", [("b", U)], ret=LL, expr=True,
        subst=[(r"semi_axes\[1\]", "b")], doc="t4 = semi_axes[1] * semi_axes[1]"),
    Sym(E, r"long long int const t7 = ([^;]*);", "ell_t7", [("a", U), ("t5", LL)], ret=LL, expr=True,
        subst=[(r"semi_axes\[0\]", "a")], doc="t7 = semi_axes[0] * t5"),
    Sym(E, r"\bd1 = ([^;,]*), d2 =", "ell_d1", [("t2", LL), ("t7", LL), ("t4", LL)], ret=LL, expr=True, doc="initial d1"),
    Sym(E, r"\bd1 = [^;,]*, d2 = ([^;,]*);", "ell_d2", [("t1", LL), ("t8", LL), ("t5", LL)], ret=LL, expr=True, doc="initial d2"),
    # bodies of the two while loops (minus the push_back)
    Sym(E, r"while \(d2 < 0\)", "ell_body1", ELL_STATE + ELL_CONST, outputs=["x", "y", "t8", "t9", "d1", "d2"],
        subst=[(r"trajectory_points\.push_back\(\{x, y\}\);", "")],
        doc="obtain_trajectory: one iteration of `while (d2 < 0)`"),
    Sym(E, r"while \(x >= 0\)", "ell_body2", ELL_STATE + ELL_CONST, outputs=["x", "y", "t8", "t9", "d1", "d2"],
        subst=[(r"trajectory_points\.push_back\(\{x, y\}\);", "")],
        doc="obtain_trajectory: one iteration of `while (x >= 0)`"),
]
NAMESPACE = "GilVerif.Gen.C20"
