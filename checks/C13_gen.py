"""valid BMP / PNM / TARGA files of every variant the GIL readers accept (GIL itself can write only a few of them).
A pixel matrix is a list of rows of tuples (r,g,b[,a]) / gray values / palette indices / bits."""
import struct

def le16(x): return struct.pack("<H", x & 0xFFFF)
def le32(x): return struct.pack("<I", x & 0xFFFFFFFF)

# ------------------------------------------------------------------ BMP
def bmp_header(w, h, bpp, compression, offset, image_size=0, ncolors=0, hs=40, top_down=False):
    fh = b"BM" + le32(offset + image_size) + le16(0) + le16(0) + le32(offset)
    if hs == 12:
        return fh + le32(12) + le16(w) + le16(h) + le16(1) + le16(bpp)
    ih = le32(hs) + le32(w) + le32(-h if top_down else h) + le16(1) + le16(bpp) + le32(compression) + le32(image_size) + le32(2835) + le32(2835) + le32(ncolors) + le32(0)
    return fh + ih + bytes(hs - 40)          # V4 / V5 headers: extra fields (zero)

def pad4(row): return row + bytes((-len(row)) % 4)

def bmp_true(rows, alpha=False, hs=40, top_down=False, gap=0):
    """24 / 32 bit; rows top to bottom as (r,g,b[,a]); `gap` unused bytes between header and pixel data"""
    h, w = len(rows), len(rows[0])
    body = b"".join(pad4(b"".join(bytes((p[2], p[1], p[0]) + ((p[3],) if alpha else ())) for p in r)) for r in (rows if top_down else rows[::-1]))
    off = 14 + hs + gap
    return bmp_header(w, h, 32 if alpha else 24, 0, off, len(body), hs=hs, top_down=top_down) + bytes(gap) + body

def palette_bytes(pal, hs): return b"".join(bytes((p[2], p[1], p[0])) + (b"\0" if hs != 12 else b"") for p in pal)

def pack_indices(idx_row, bpp):
    if bpp == 8: return bytes(idx_row)
    out, per = bytearray(), 8 // bpp
    for i in range(0, len(idx_row), per):
        v = 0
        for k in range(per):
            v = (v << bpp) | (idx_row[i + k] if i + k < len(idx_row) else 0)
        out.append(v)
    return bytes(out)

def bmp_palette(idx, pal, bpp, hs=40, ncolors=None):
    """1 / 4 / 8 bit uncompressed; idx rows top to bottom; header says `ncolors` entries (0 = 2^bpp)"""
    h, w = len(idx), len(idx[0])
    n = (1 << bpp) if not ncolors else ncolors
    pal = (list(pal) + [(0, 0, 0)] * n)[:n]
    pb = palette_bytes(pal, hs)
    body = b"".join(pad4(pack_indices(r, bpp)) for r in idx[::-1])
    off = 14 + hs + len(pb)
    return bmp_header(w, h, bpp, 0, off, len(body), ncolors=(ncolors or 0), hs=hs) + pb + body

def rle_encode_row(row, bpp, r, mode):
    """one row as RLE8 / RLE4 packets: encoded runs for repeats, absolute runs (>= 3 pixels) otherwise, by `mode`"""
    out, i, w = bytearray(), 0, len(row)
    while i < w:
        j = i
        while j < w and j - i < 255 and row[j] == row[i]: j += 1
        run = j - i
        use_abs = (mode == "abs") or (mode == "mix" and run < 2 and r.chance(1, 2))
        if use_abs and w - i >= 3:
            n = min(w - i, 3 + r.below(6), 255)
            out += bytes((0, n))
            if bpp == 8: data = bytes(row[i:i + n])
            else: data = pack_indices(row[i:i + n], 4)
            out += data
            if len(data) % 2: out.append(0)           # pad to a word boundary
            i += n
        else:
            if bpp == 8: out += bytes((run, row[i]))
            else:
                # RLE4 encoded run alternates two indices: use it for a run of one colour, or a two colour alternation
                out += bytes((run, (row[i] << 4) | row[i]))
            i += run
    return bytes(out)

def bmp_rle(idx, pal, bpp, r, mode="mix", eol_last=True, delta=False):
    """RLE8 (bpp 8) / RLE4 (bpp 4); rows are stored bottom-up, each ended by 00 00, the bitmap by 00 01"""
    h, w = len(idx), len(idx[0])
    n = 1 << bpp
    pal = (list(pal) + [(0, 0, 0)] * n)[:n]
    pb = palette_bytes(pal, 40)
    body = bytearray()
    for k, row in enumerate(idx[::-1]):
        body += rle_encode_row(row, bpp, r, mode)
        if k < h - 1 or eol_last: body += b"\0\0"
    body += b"\0\1"
    off = 14 + 40 + len(pb)
    return bmp_header(w, h, bpp, 1 if bpp == 8 else 2, off, len(body)) + pb + bytes(body)

def bmp_16(rows, kind="555"):
    """15/16 bit: kind 555 (compression 0, bpp 16), 555-15 (bpp 15), 565 (bit fields)"""
    h, w = len(rows), len(rows[0])
    def px(p):
        if kind == "565": v = ((p[0] >> 3) << 11) | ((p[1] >> 2) << 5) | (p[2] >> 3)
        else: v = ((p[0] >> 3) << 10) | ((p[1] >> 3) << 5) | (p[2] >> 3)
        return le16(v)
    body = b"".join(pad4(b"".join(px(p) for p in r)) for r in rows[::-1])
    masks = le32(0xF800) + le32(0x07E0) + le32(0x001F) if kind == "565" else b""
    off = 14 + 40 + len(masks)
    return bmp_header(w, h, 15 if kind == "555-15" else 16, 3 if kind == "565" else 0, off, len(body)) + masks + body

# ------------------------------------------------------------------ PNM
def pnm_header(t, w, h, maxv, style):
    if style == 0: s = "P%d %d %d " % (t, w, h) + ("" if t in (1, 4) else "%d " % maxv)             # what GIL writes
    elif style == 1: s = "P%d\n%d %d\n" % (t, w, h) + ("" if t in (1, 4) else "%d\n" % maxv)          # netpbm
    else: s = "P%d\n# a comment\n%d\t%d\r\n" % (t, w, h) + ("" if t in (1, 4) else "# another\n%d\n" % maxv)
    return s.encode()

def pnm_bin(t, rows, style=0):
    """P4 (rows of bits, 1 = black in the file = gil 0), P5 (gray), P6 ((r,g,b))"""
    h, w = len(rows), len(rows[0])
    if t == 4: body = b"".join(pack_indices([1 - b for b in r], 1) for r in rows)
    elif t == 5: body = b"".join(bytes(r) for r in rows)
    else: body = b"".join(b"".join(bytes(p) for p in r) for r in rows)
    return pnm_header(t, w, h, 255, style) + body

def pnm_ascii(t, rows, maxv=255, style=0, sep=" "):
    h, w = len(rows), len(rows[0])
    if t == 3: toks = [[str(c) for p in r for c in p] for r in rows]
    else: toks = [[str(v) for v in r] for r in rows]
    body = "\n".join(sep.join(tr) for tr in toks) + "\n"
    return pnm_header(t, w, h, maxv, style) + body.encode()

# ------------------------------------------------------------------ TARGA
def tga_rle_row_packets(pixels, r, mode):
    out, i, n = bytearray(), 0, len(pixels)
    while i < n:
        j = i
        while j < n and j - i < 128 and pixels[j] == pixels[i]: j += 1
        run = j - i
        if run >= 2 or mode == "runs" or (mode == "mix" and r.chance(1, 3)):
            out.append(0x80 | (run - 1)); out += pixels[i]; i += run
        else:
            k = min(n - i, 1 + r.below(4), 128)
            out.append(k - 1); out += b"".join(pixels[i:i + k]); i += k
    return bytes(out)

def targa(rows, alpha=False, rle=False, top_origin=False, idlen=0, r=None, mode="mix", cross_rows=False):
    """type 2 / 10, 24 / 32 bit; rows top to bottom as (r,g,b[,a])"""
    h, w = len(rows), len(rows[0])
    enc = lambda p: bytes((p[2], p[1], p[0]) + ((p[3],) if alpha else ()))
    stored = rows if top_origin else rows[::-1]
    desc = (8 if alpha else 0) | (0x20 if top_origin else 0)
    hdr = bytes((idlen, 0, 10 if rle else 2)) + le16(0) + le16(0) + b"\0" + le16(0) + le16(0) + le16(w) + le16(h) + bytes((32 if alpha else 24, desc))
    ident = bytes((0x41 + i % 26) for i in range(idlen))
    if not rle: body = b"".join(b"".join(enc(p) for p in row) for row in stored)
    elif cross_rows: body = tga_rle_row_packets([enc(p) for row in stored for p in row], r, mode)      # packets may span scanlines
    else: body = b"".join(tga_rle_row_packets([enc(p) for p in row], r, mode) for row in stored)
    return hdr + ident + body
