"""C03 -- all navigation paths reach the same pixel; iterator / locator laws (DESIGN.md section 5, C03)"""
import json, concurrent.futures
import vlib, C03_syms

# kind -> (group of the harness binary, PAD granularity in memory units, is bit kind, is virtual)
KINDS = {
    "g8": (1, 1), "rgb8": (1, 1), "rgba8": (1, 1), "rgb16": (1, 2), "rgb32f": (1, 4), "p565": (1, 2),
    "pl8": (2, 1), "pl16": (2, 2), "v": (2, 1), "pd2": (4, 1), "pd5": (4, 1),
    "b1": (3, 1), "b2": (3, 1), "b3": (3, 1), "b4": (3, 1), "b6": (3, 1), "b12": (3, 1),
}
BITS = {"b1": 1, "b2": 2, "b3": 3, "b4": 4, "b6": 6, "b12": 12}

def xf_dims(t, w, h):
    c = t[0]
    if c in "UILX": return w, h
    if c in "TRC": return h, w
    if c == "S": sx, sy = map(int, t[1:].split(",")); return (w + sx - 1) // sx, (h + sy - 1) // sy
    if c == "B": a = list(map(int, t[1:].split(","))); return a[2], a[3]
    raise ValueError(t)

def rand_xforms(r, w, h, depth):
    """a valid transformation list (the factories assert a non-empty width: stop when w == 0)"""
    ts = []
    for _ in range(depth):
        if w <= 0 or h < 0: break
        c = r.choice("ULTRCISB")
        if c == "S": t = "S%d,%d" % (r.range(1, 3), r.range(1, 3))
        elif c == "B":
            if h <= 0: continue
            x0 = r.range(0, w - 1); y0 = r.range(0, h - 1)
            t = "B%d,%d,%d,%d" % (x0, y0, r.range(0, w - x0), r.range(0, h - y0))
        else: t = c
        ts.append(t); w, h = xf_dims(t, w, h)
    return ("/".join(ts) if ts else "-"), w, h

def view_words(r, kind, W, H, xf_depth, pad=None):
    g = KINDS[kind][1]
    if kind == "v": PAD, OFF = r.range(0, 40), r.range(0, 7)
    else:
        PAD = (r.choice([0, 0, 1, 2, 3, 5, 8]) if pad is None else pad) * g
        OFF = r.range(0, 7) if kind in BITS else 0
    xf, w, h = rand_xforms(r, W, H, xf_depth)
    return "%s %d %d %d %d %s" % (kind, W, H, PAD, OFF, xf), w, h

def gen_ops(ctx):
    r, th = ctx.rng, ctx.thorough()
    N = 12 if th else 5
    ops = []
    shapes = [(w, h) for w in range(0, N + 1) for h in range(0, N + 1)]
    for kind in KINDS:
        # --- nav: every shape, untransformed (contiguous + padded) and under random compositions
        for (W, H) in shapes:
            if th and W * H > 64 and r.chance(2, 3): continue
            for depth, pad in ((0, 0), (0, None), (1, None), (3 if not th else 5, None)):
                vw, w, h = view_words(r, kind, W, H, depth, pad)
                cx, cy = (r.range(0, w - 1) if w > 0 else 0), (r.range(0, h - 1) if h > 0 else 0)
                ops.append("nav %s %d %d" % (vw, cx, cy))
        # --- ra: 1-D iterator, every start, every n in [-i-1, size-i+1] (one step outside the contract on each side)
        for (W, H) in shapes:
            if W * H > (40 if th else 25): continue
            for depth in ((0, 2) if not th else (0, 1, 3)):
                vw, w, h = view_words(r, kind, W, H, depth)
                size = w * h
                starts = range(0, size + 1) if (size <= 12 or th) else sorted({0, 1, w - 1, w, size - 1, size} | {r.range(0, size) for _ in range(4)})
                for i in starts:
                    if i < 0 or i > size: continue
                    m = r.range(-i, size - i) if size > 0 else 0
                    ops.append("ra %s %d %d %d %d" % (vw, i, -i - 1, size - i + 1, m))
        # --- st: x iterators of every row / y iterators of every column
        for (W, H) in shapes:
            if W == 0 or H == 0 or W * H > (49 if th else 16): continue
            for depth in (0, 2):
                vw, w, h = view_words(r, kind, W, H, depth)
                if w <= 0 or h <= 0: continue
                for axis, cnt, ln in ((0, h, w), (1, w, h)):
                    for c in (range(cnt) if cnt <= 3 else [0, r.range(1, cnt - 2), cnt - 1]):
                        for i in sorted({0, ln, r.range(0, ln)}):
                            ops.append("st %s %d %d %d %d %d %d" % (vw, axis, c, i, -i, ln - i, r.range(-i, ln - i)))
        # --- mv: locator move programs
        for _ in range(400 if th else 60):
            W, H = r.range(1, N), r.range(1, N)
            vw, w, h = view_words(r, kind, W, H, r.range(0, 3))
            if w <= 0 or h <= 0: continue
            x0, y0 = r.range(0, w - 1), r.range(0, h)
            ms = []
            for _ in range(r.range(0, 12 if th else 6)):
                c = r.choice(["p", "m", "x", "y", "ix", "dx", "iy", "dy"])
                if c in "pm": ms.append("%s %d %d" % (c, r.range(-w - 2, w + 2), r.range(-h - 2, h + 2)))
                elif c in "xy": ms.append("%s %d" % (c, r.range(-w - 2, w + 2)))
                else: ms.append(c)
            ops.append("mv %s %d %d %s" % (vw, x0, y0, " ".join(ms)))
    # --- pli: raw planar x-iterators with all three planes (operator[], + , - , comparisons); U and B keep the iterator type
    for kind in ("pl8", "pl16"):
        g = KINDS[kind][1]
        for (W, H) in shapes:
            if W == 0 or H == 0 or W * H > (64 if th else 20): continue
            for xf in ("-", "U", "B"):
                if xf == "B":
                    x0, y0 = r.range(0, W - 1), r.range(0, H - 1); bw, bh = r.range(1, W - x0), r.range(1, H - y0)
                    xfs, w, h = "B%d,%d,%d,%d" % (x0, y0, bw, bh), bw, bh
                    if r.chance(1, 2): xfs += "/U"
                else: xfs, w, h = xf, W, H
                vw = "%s %d %d %d 0 %s" % (kind, W, H, r.choice([0, 1, 2, 5]) * g, xfs)
                for y in sorted({0, h - 1}):
                    for i in sorted({0, w, r.range(0, w)}):
                        for d in sorted({-i, w - i, 0, 1, -1, r.range(-i, w - i)}):
                            if 0 <= i + d <= w: ops.append("pli %s %d %d %d" % (vw, y, i, d))
    # --- pnav: planar views of 2, 3 and 5 planes, EVERY plane's address through every path (plain, padded, under random compositions)
    for kind in ("pd2", "pd5", "pl8", "pl16"):
        for (W, H) in shapes:
            if W * H == 0 or W * H > (64 if th else 20): continue
            for depth, pad in ((0, 0), (0, None), (1, None), (3, None)):
                vw, w, h = view_words(r, kind, W, H, depth, pad)
                cx, cy = (r.range(0, w - 1) if w > 0 else 0), (r.range(0, h - 1) if h > 0 else 0)
                ops.append("pnav %s %d %d" % (vw, cx, cy))
    # --- large views: random multi-row jumps of the 1-D iterator (and a locator move) far from the origin
    BIG = {"v": (1000, 1000), "g8": (700, 700), "rgb8": (400, 400), "pl16": (200, 200), "b1": (1000, 1000), "b6": (300, 300)}
    for kind, (W, H) in BIG.items():
        for _ in range(20000 if th else 250):
            vw, w, h = view_words(r, kind, W, H, r.range(0, 2), pad=r.range(0, 3))
            size = w * h
            if size <= 0: continue
            i = r.range(0, size); n = r.range(-i, size - i); m = r.range(-(i + n), size - (i + n))
            ops.append("ra %s %d %d %d %d" % (vw, i, n, n, m))
            if r.chance(1, 4):      # locator moves between random positions of [0,w]x[0,h] (every intermediate stays inside the buffer)
                cx, cy = r.range(0, w - 1), r.range(0, h); ms = []
                x0, y0 = cx, cy
                for c in ("p", "m", "x", "y", "p"):
                    tx, ty = r.range(0, w), r.range(0, h)
                    if c == "p": ms.append("p %d %d" % (tx - cx, ty - cy)); cx, cy = tx, ty
                    elif c == "m": ms.append("m %d %d" % (cx - tx, cy - ty)); cx, cy = tx, ty
                    elif c == "x": ms.append("x %d" % (tx - cx)); cx = tx
                    else: ms.append("y %d" % (ty - cy)); cy = ty
                ops.append("mv %s %d %d %s" % (vw, x0, y0, " ".join(ms)))
    # --- bit ranges in a 2^33-bit reservation: carry at every bit offset, both signs, up to the narrowing guard
    I31 = 2 ** 31
    for b in BITS.values():
        for off in range(8):
            for n in [0, 1, -1, 7, 8, 9, -7, -8, -9, 8 - off, -off, -off - 1, 12345, -12345,
                      I31 - 1 - off, -I31 - off, I31 - 8, -(I31 - 8)] + [r.range(-I31 + 8, I31 - 9) for _ in range(20 if th else 4)]:
                ops.append("bit %d %d %d" % (b, off, n))
            for k in [0, 1, -1, 5, -5, 1000, -1000, (I31 - 8) // b, -((I31 - 8) // b)] + [r.range(-(I31 - 8) // b, (I31 - 8) // b) for _ in range(10 if th else 3)]:
                ops.append("bitit %d %d %d" % (b, off, k))
    # beyond 2^31 bits (where the pre-30b4cc6 tree narrowed to int): the first formerly violating point and a few more
    for b in BITS.values():
        for off, n in ((7, I31 - 7), (0, I31), (3, -I31 - 4), (7, 2 * I31 - 100)):
            ops.append("bit %d %d %d" % (b, off, n))
    ops.append("bitit 1 7 %d" % (I31 - 7)); ops.append("bitit 6 0 %d" % (I31 // 6 + 1)); ops.append("bitit 12 4 %d" % (-(I31 // 12) - 1))
    return ops

def group_of(op):
    w = op.split()
    if w[0] in ("bit", "bitit"): return 3
    return KINDS[w[1]][0]

def nontrivial(op):
    w = op.split()
    if w[0] in ("bit", "bitit"): return int(w[3]) != 0
    if int(w[2]) == 0 or int(w[3]) == 0: return False          # empty source
    if w[0] == "nav": return int(w[2]) * int(w[3]) > 1
    return True

ASSUME = [
    "ptrdiff_t arithmetic does not overflow (coordinates, steps and offsets are unbounded Int in the model)",
    "which comparison operators a non-step x-iterator uses (built-in for pointers, planar_pixel_iterator's own operator< plus iterator_facade's > <= >=, "
    "iterator_facade's for bit iterators) is C++ overload selection: hand-modelled in itCmp (C03_x_order proves the laws for that model), observed; "
    "Boost iterator_facade's relational operators (0 > -distance_to etc.) are not a GIL header and are hand-modelled (facadeCmp)",
    "iterator positions outside [begin, end] are outside the iterators' contract: compared model vs implementation but not judged",
]

def run(ctx, ops=None):
    vlib.regen(ctx, C03_syms.NAMESPACE, C03_syms.SYMS)
    obligations, discharged = vlib.standard_proof_steps(ctx)
    with concurrent.futures.ThreadPoolExecutor(4) as ex:
        futs = {g: ex.submit(vlib.compile_harness, ctx, "harness/C03/main.cpp", "C03_g%d" % g, (), (), True, "-O0", ["KGROUP=%d" % g]) for g in (1, 2, 3, 4)}
        bins = {g: f.result() for g, f in futs.items()}
    samples, distinct = [], 0
    bad = [(g, e) for g, (b, e) in bins.items() if b is None]
    if bad:
        for g, e in bad:
            ctx.broken.append(("harness", "compile group %d" % g, e[-1500:])); ctx.log("harness group %d does not compile:\n%s" % (g, e[-1500:]))
    else:
        ops = ops or gen_ops(ctx)
        ctx.log("generated %d op lines" % len(ops))
        for g in (1, 2, 3, 4):
            sub = [o for o in ops if group_of(o) == g]
            if not sub: continue
            impl, model = vlib.correspond(ctx, bins[g][0], "drv_C03", sub, label="group %d" % g)
            for i in (0, len(sub) // 2, len(sub) - 1):
                samples.append({"op": sub[i][:160], "impl": impl[i][:200], "model": model[i][:200]})
        distinct = len({o for o in ops if nontrivial(o)})
        dist = {}
        for o in ops: dist[o.split()[0]] = dist.get(o.split()[0], 0) + 1
        ctx.cov["input_distribution"] = dist
    return vlib.finish(ctx, "proof", obligations, discharged,
        rule="op lines over 17 view kinds (interleaved 1/3/4/6/12-byte pixels, packed 565, planar 8/16 with 3 planes and 8 with 2 and 5 planes, virtual, bit-aligned 1/2/3/4/6/12 bits) x every shape "
             "w,h in 0..N x row padding x random compositions of flip/rotate/transpose/subimage/subsample: nav = 10 navigation paths for every pixel, "
             "ra = 1-D iterator laws for every start and every in-range offset (+1 outside on each side), st = x/y iterator laws, mv = locator move programs, "
             "pnav = planar views of 2 / 3 / 5 planes with EVERY plane's address through 13 paths, pli = raw planar x-iterators with all three planes (operator[], it+d, difference, six comparisons), "
             "bit/bitit = bit iterator carry at every bit offset, up to and beyond +-2^31 bits; non-trivial = non-empty source (nav: more than one pixel; bit: n != 0)",
        samples=samples, distinct_nontrivial=distinct, assumptions=ASSUME, trusted_base=vlib.TRUSTED_BASE,
        extra={"input_distribution": ctx.cov.get("input_distribution", {}), "view_kinds": sorted(KINDS)})

def replay(ctx, path):
    rp = json.load(open(path))
    ops = rp.get("op_lines") or []
    if not ops: return run(ctx)
    return run(ctx, ops=ops)
