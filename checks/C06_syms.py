"""translator whitelist for C06 (channel_convert): every integral converter body of channel_algorithm.hpp.

The converter templates are generic in (SrcChannelV, DstChannelV); what differs between instantiations is
  * the C type of `src`                       (uint8_t / uint16_t / uint32_t, or integer_t of a packed value),
  * the C type of unsigned_integral_max_value (uint32_t for uint8_t/uint16_t, uintmax_t for uint32_t, integer_t for packed),
  * the C type the result is narrowed to      (the destination's base type).
Each body is translated once per *class pair* that some ordered pair of in-scope channel models selects, with the
maxima left as parameters (srcMax, dstMax), so the theorems are parametric in the maxima.

class   src variable   max constant     channel models
B8      uint8_t        uint32_t         uint8_t  (int8_t after the offset)
B16     uint16_t       uint32_t         uint16_t (int16_t)
B32     uint32_t       uintmax_t        uint32_t (int32_t)
P8      uint8_t        uint8_t          packed_channel_value<1..8>  (and packed references of these widths)
P16     uint16_t       uint16_t         packed_channel_value<9..16>
"""
from cxx2lean import Sym
H = "boost/gil/channel_algorithm.hpp"
NAMESPACE = "GilVerif.Gen.C06"

CLASSES = {  # name: (type of `src` / destination base type, type of the max constant, max of maxima)
    "B8": ("uint8_t", "uint32_t"), "B16": ("uint16_t", "uint32_t"), "B32": ("uint32_t", "uintmax_t"),
    "P8": ("uint8_t", "uint8_t"), "P16": ("uint16_t", "uint16_t"),
}
# in-scope unsigned integral channel models: (class, max)
UTYPES = {"u8": ("B8", 255), "u16": ("B16", 65535), "u32": ("B32", 2**32 - 1)}
for n in range(1, 17): UTYPES["p%d" % n] = ("P8" if n <= 8 else "P16", 2**n - 1)

def kernel_of(sm, dm):
    """the case split of channel_converter_unsigned_impl<S,D,true,true> (S != D)"""
    if sm < dm: return "up_div" if dm % sm == 0 else "up_nondiv"
    return "down_div" if sm % dm == 0 else "down_nondiv"

def used_pairs():
    used = {"up_div": set(), "down_div": set(), "up_nondiv": set(), "down_nondiv": set()}
    for s, (sc, sm) in UTYPES.items():
        for d, (dc, dm) in UTYPES.items():
            if s != d: used[kernel_of(sm, dm)].add((sc, dc))
    return {k: sorted(v) for k, v in used.items()}

ANCHOR = {
    "up_div": r"struct channel_converter_unsigned_integral_impl<SrcChannelV,DstChannelV,true,true> \{\s*auto operator\(\)\(SrcChannelV src\) const -> DstChannelV",
    "down_div": r"struct channel_converter_unsigned_integral_impl<SrcChannelV,DstChannelV,false,true> \{\s*auto operator\(\)\(SrcChannelV src\) const -> DstChannelV",
    "up_nondiv": r"struct channel_converter_unsigned_integral_nondivisible<SrcChannelV, DstChannelV, true, false>\s*\{\s*auto operator\(\)\(SrcChannelV src\) const -> DstChannelV",
}

def kernel(kind, sc, dc):
    (svar, smax), (dvar, dmax) = CLASSES[sc], CLASSES[dc]
    integer_t = dmax if kind == "up_div" else smax           # the body's own `using integer_t = ...`
    return Sym(H, ANCHOR[kind], "%s_%s_%s" % (kind, sc, dc),
               [("src", svar), ("srcMax", smax), ("dstMax", dmax)], ret=dvar,
               subst=[(r"using integer_t = [^;]*;", ""), (r"using dest_t = [^;]*;", ""),
                      (r"\binteger_t\b", integer_t), (r"\bdest_t\b", dvar),
                      (r"unsigned_integral_max_value<DstChannelV>::value", "dstMax"),
                      (r"unsigned_integral_max_value<SrcChannelV>::value", "srcMax"),
                      (r"DstChannelV\(", dvar + "(")],
               doc="%s, source class %s (src : %s, max : %s), destination class %s (base %s, max : %s)" % (kind, sc, svar, smax, dc, dvar, dmax))

SYMS = []
for kind in ("up_div", "down_div", "up_nondiv"):
    for sc, dc in used_pairs()[kind]:
        SYMS.append(kernel(kind, sc, dc))
SYMS += [
    Sym(H, r"struct channel_convert_to_unsigned<int8_t>.*?type operator\(\)\(int8_t val\) const", "to_unsigned_i8", [("val", "int8_t")], ret="uint8_t"),
    Sym(H, r"struct channel_convert_to_unsigned<int16_t>.*?type operator\(\)\(int16_t val\) const", "to_unsigned_i16", [("val", "int16_t")], ret="uint16_t"),
    Sym(H, r"struct channel_convert_to_unsigned<int32_t>.*?type operator\(\)\(int32_t val\) const", "to_unsigned_i32", [("val", "int32_t")], ret="uint32_t"),
    Sym(H, r"struct channel_convert_from_unsigned<int8_t>.*?type operator\(\)\(uint8_t val\) const", "from_unsigned_i8", [("val", "uint8_t")], ret="int8_t"),
    Sym(H, r"struct channel_convert_from_unsigned<int16_t>.*?type operator\(\)\(uint16_t val\) const", "from_unsigned_i16", [("val", "uint16_t")], ret="int16_t"),
    Sym(H, r"struct channel_convert_from_unsigned<int32_t>.*?type operator\(\)\(uint32_t val\) const", "from_unsigned_i32", [("val", "uint32_t")], ret="int32_t"),
]

if __name__ == "__main__":
    for k, v in used_pairs().items(): print(k, len(v), v)
