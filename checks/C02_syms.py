"""translator whitelist for C02 (view factories, stepping / transposing locator constructors)"""
import re
from cxx2lean import Sym
F = "boost/gil/image_view_factory.hpp"
LOC = "boost/gil/locator.hpp"
VL = "boost/gil/virtual_locator.hpp"
IV = "boost/gil/image_view.hpp"
PD = "std::ptrdiff_t"

# A factory body  `{ using RView = ...; return RView(<dims>, typename RView::xy_locator(src.xy_at(<ox>,<oy>), <steps...>)); }`
# is flattened into assignments to the seven outputs below:
#   ox oy  origin handed to xy_at        sx sy  the x / y step arguments (1 when the constructor has no such argument)
#   tr     transpose flag                dw dh  dimensions of the result
OUT = ["ox", "oy", "sx", "sy", "tr", "dw", "dh"]
PARAMS = [("w", PD), ("h", PD), ("x_step", PD), ("y_step", PD), ("x_min", PD), ("y_min", PD), ("width", PD), ("height", PD)] + [(o, PD) for o in OUT]
SRC = [(r"src\.width\(\)", "w"), (r"src\.height\(\)", "h")]
HEAD = r"\{\s*using RView = [^;]*;\s*return RView\("
TAIL = r"\)\);\s*\}"
BAL = r"(?:[^(),]|\([^()]*\))+"          # an argument: no top-level comma, parentheses balanced one level deep
BAL2 = r"(?:[^(),]|\((?:[^()]|\([^()]*\))*\))+"   # the same, two levels deep
XY = r"typename RView::xy_locator\(src\.xy_at\((" + BAL + r"),(" + BAL + r")\)"

def factory(name, dims, steps, assign):
    """dims: regex for the dimension arguments; steps: regex for what follows xy_at(..) inside xy_locator(...);
       assign: replacement text producing the seven assignments from the captured groups"""
    return Sym(F, r"inline auto %s\(View const& src\)" % name, "fac_" + name, PARAMS, outputs=OUT,
               subst=[(HEAD + dims + r"," + XY + steps + TAIL, "{ " + assign + " }")] + SRC,
               doc="%s: origin, steps, transpose flag and dimensions the factory passes on" % name)

SAME = r"src\.dimensions\(\)"
SWAP = r"src\.height\(\),src\.width\(\)"
SYMS = [
    factory("flipped_up_down_view", SAME, r",(-?\d+)", r"ox = \1; oy = \2; sx = 1; sy = \3; tr = 0; dw = w; dh = h;"),
    factory("flipped_left_right_view", SAME, r",(-?\d+),(-?\d+)", r"ox = \1; oy = \2; sx = \3; sy = \4; tr = 0; dw = w; dh = h;"),
    factory("transposed_view", SWAP, r",(-?\d+),(-?\d+),true", r"ox = \1; oy = \2; sx = \3; sy = \4; tr = 1; dw = h; dh = w;"),
    factory("rotated90cw_view", SWAP, r",(-?\d+),(-?\d+),true", r"ox = \1; oy = \2; sx = \3; sy = \4; tr = 1; dw = h; dh = w;"),
    factory("rotated90ccw_view", SWAP, r",(-?\d+),(-?\d+),true", r"ox = \1; oy = \2; sx = \3; sy = \4; tr = 1; dw = h; dh = w;"),
    factory("rotated180_view", SAME, r",(-?\d+),(-?\d+)", r"ox = \1; oy = \2; sx = \3; sy = \4; tr = 0; dw = w; dh = h;"),
    Sym(F, r"inline View subimage_view\(View const& src,\s*typename View::coord_t x_min,", "fac_subimage_view", PARAMS, outputs=OUT,
        subst=[(r"\{\s*return View\(width, height, src\.xy_at\((" + BAL + r"), (" + BAL + r")\)\);\s*\}",
                r"{ ox = \1; oy = \2; sx = 1; sy = 1; tr = 0; dw = width; dh = height; }")],
        doc="subimage_view(src, x_min, y_min, width, height)"),
    Sym(F, r"auto subsampled_view\(View const& src, typename View::coord_t x_step, typename View::coord_t y_step\)", "fac_subsampled_view", PARAMS, outputs=OUT,
        subst=[(r"using view_t =[^;]*;\s*return view_t\(\s*([^,]+),\s*([^,]+),\s*typename view_t::xy_locator\(src\.xy_at\((" + BAL + r"),(" + BAL + r")\), ([^,]+), ([^)]+)\)\);",
                r"ox = \3; oy = \4; sx = \5; sy = \6; tr = 0; dw = \1; dh = \2;")] + SRC,
        doc="subsampled_view(src, x_step, y_step)"),
    # memory_based_2d_locator: the y-step constructor and the stepping / transposing constructor
    Sym(LOC, r"memory_based_2d_locator\(const memory_based_2d_locator<SI>& loc, coord_t y_step\) : _p\(loc\.x\(\), (loc\.row_size\(\)\*y_step)\)", "loc_ystep_ctor",
        [("row_size", PD), ("y_step", PD)], ret=PD, expr=True, subst=[(r"loc\.row_size\(\)", "row_size")]),
    Sym(LOC, r"bool transpose=false\)\s*: _p\(make_step_iterator\(loc\.x\(\),(" + BAL2 + r")\),", "loc_step_ctor_x",
        [("transpose", "bool"), ("row_size", PD), ("pixel_size", PD), ("x_step", PD)], ret=PD, expr=True,
        subst=[(r"loc\.row_size\(\)", "row_size"), (r"loc\.pixel_size\(\)", "pixel_size")]),
    Sym(LOC, r"bool transpose=false\)\s*: _p\(make_step_iterator\(loc\.x\(\)," + BAL2 + r"\),\s*(" + BAL2 + r")\s*\) \{\}", "loc_step_ctor_y",
        [("transpose", "bool"), ("row_size", PD), ("pixel_size", PD), ("y_step", PD)], ret=PD, expr=True,
        subst=[(r"loc\.row_size\(\)", "row_size"), (r"loc\.pixel_size\(\)", "pixel_size")]),
    Sym(LOC, r"std::ptrdiff_t offset\(x_coord_t x, y_coord_t y\)\s*const", "loc_offset",
        [("x", PD), ("y", PD), ("row_size", PD), ("pixel_size", PD)], ret=PD,
        subst=[(r"row_size\(\)", "row_size"), (r"pixel_size\(\)", "pixel_size")]),
    # image_view::xy_at(x, y): the assertions guarding it (1 = passes)
    Sym(IV, r"auto xy_at\(x_coord_t x, y_coord_t y\) const -> xy_locator", "xy_at_ok", [("x", PD), ("y", PD), ("w", PD), ("h", PD)], ret="int",
        subst=[(r"BOOST_ASSERT\(([^;]*)\);", r"if (!(\1)) return 0;"), (r"return _pixels \+ point_t\(x, y\);", "return 1;"),
               (r"width\(\)", "w"), (r"height\(\)", "h")],
        doc="image_view::xy_at(x,y): 1 iff its BOOST_ASSERTs pass"),
    Sym(IV, r"auto operator\(\)\(x_coord_t x, y_coord_t y\) const -> reference", "call_ok", [("x", PD), ("y", PD), ("w", PD), ("h", PD)], ret="int",
        subst=[(r"BOOST_ASSERT\(([^;]*)\);", r"if (!(\1)) return 0;"), (r"return _pixels\(x, y\);", "return 1;"),
               (r"width\(\)", "w"), (r"height\(\)", "h")],
        doc="image_view::operator()(x,y): 1 iff its BOOST_ASSERTs pass"),
    # does nth_channel_view / kth_channel_view take the channel's address through image_view::operator() (which asserts a
    # non-empty view) or through the locator?  1 = through the view
    Sym(F, r"x_iterator_base_t\(\s*&\s*\(\s*(src(?:\.pixels\(\))?)\(\s*0\s*,\s*0\s*\)\s*\[[^\]]*\]\s*\)\s*\)", "nth_channel_through_view", [], ret="int", expr=True,
        subst=[(r"src\.pixels\(\)", "0"), (r"src", "1")],
        doc="nth_channel_view: 1 iff the address of channel n is taken through image_view::operator()(0,0)"),
]

# virtual_2d_locator: the two stepping constructors; each `point_t(a, b)` alternative is captured component-wise
def vctor(which, lean, grp, params, doc):
    # which = 0: (loc, y_step) constructor; 1: (loc, x_step, y_step, transpose) constructor
    pre = (r"virtual_2d_locator\(virtual_2d_locator<D, TR> const &loc, coord_t y_step\)" if which == 0 else
           r"virtual_2d_locator\(virtual_2d_locator<D, TR> const& loc, coord_t x_step, coord_t y_step, bool transpose = false\)")
    parts = [BAL, BAL, BAL, BAL]
    parts[grp] = "(" + parts[grp] + ")"
    anchor = pre + r"\s*: y_pos_\(loc\.pos\(\)\s*, IsTransposed \?[^\n]*\n\s*point_t\(%s,\s*%s\) :\s*point_t\(%s,\s*%s\)" % tuple(parts)
    return Sym(VL, anchor, lean, params, ret=PD, expr=True,
               subst=[(r"loc\.step\(\)\.x", "step_x"), (r"loc\.step\(\)\.y", "step_y")], doc=doc)

VP = [("step_x", PD), ("step_y", PD), ("x_step", PD), ("y_step", PD)]
for which, tag in ((0, "y"), (1, "xy")):
    for grp, nm in enumerate(["tr_x", "tr_y", "id_x", "id_y"]):
        SYMS.append(vctor(which, "vloc_%s_%s" % (tag, nm), grp, VP,
                          "virtual_2d_locator %s-step constructor: %s component of the new step (%s result type)" % (
                              tag, nm[-1], "transposed" if nm.startswith("tr") else "untransposed")))
# ---- channel views of basic (memory based) views: __nth_channel_view_basic / __kth_channel_view_basic ::make and the `adjacent` predicate.
# Outputs: ox oy = the pixel whose channel address is taken, ch = which channel, xstep / ystep = steps of the new locator, dw dh = dimensions.
COUT = ["ox", "oy", "ch", "xstep", "ystep", "dw", "dh"]
CPARAMS = [("n", "int"), ("K", "int"), ("pixel_size", PD), ("row_size", PD), ("chan_size", PD), ("w", PD), ("h", PD)] + [(o, PD) for o in COUT]
CSRC = [(r"src\.pixels\(\)\.pixel_size\(\)", "pixel_size"), (r"src\.pixels\(\)\.row_size\(\)", "row_size")] + SRC
PIX00 = r"src(?:\.pixels\(\))?\((" + BAL + r"),(" + BAL + r")\)"
NTH_ADDR = r"&\s*\(\s*" + PIX00 + r"\s*\[\s*(" + BAL + r")\s*\]\s*\)"                    # &(src.pixels()(0,0)[n])
KTH_ADDR = r"&\s*gil::at_c<\s*(\w+)\s*>\(\s*" + PIX00 + r"\s*\)"                       # &gil::at_c<K>(src.pixels()(0,0))
def chan_make(kth, adjacent):
    name = "__kth_channel_view_basic<K,View,%s>" % ("true" if adjacent else "false") if kth else "__nth_channel_view_basic<View,%s>" % ("true" if adjacent else "false")
    sig = r"static type make\(View const& src\)" if kth else r"static type make\(View const& src, int n\)"
    addr = KTH_ADDR if kth else NTH_ADDR
    grp = (r"\2", r"\3", r"\1") if kth else (r"\1", r"\2", r"\3")           # ox, oy, ch
    if adjacent:
        # interleaved_view(w, h, (gray pixel pointer)&channel, row bytes): the x step is the size of the pointee, one channel
        sub = [(r"return interleaved_view\(\s*(" + BAL + r"),(" + BAL + r"),\s*\(x_iterator_t\)\s*" + addr + r"\s*,\s*(" + BAL2 + r")\);",
                "dw = \\1; dh = \\2; ox = \\%d; oy = \\%d; ch = \\%d; xstep = chan_size; ystep = \\6;" % tuple(int(g[1]) + 2 for g in grp))]
    else:
        sub = [(r"x_iterator_t\s+sit\(\s*x_iterator_base_t\(\s*" + addr + r"\s*\)\s*,(" + BAL2 + r")\);", "ox = %s; oy = %s; ch = %s; xstep = \\4;" % grp),
               (r"return type\(\s*src\.dimensions\(\)\s*,\s*locator_t\(\s*sit\s*,\s*(" + BAL2 + r")\)\s*\);", r"dw = w; dh = h; ystep = \1;")]
    return Sym(F, r"struct " + re.escape(name) + r" \{.*?" + sig, "%s_channel_%s" % ("kth" if kth else "nth", "adjacent" if adjacent else "stepped"),
               CPARAMS, outputs=COUT, subst=[(r"using [^;]*;", "")] + sub + CSRC,
               doc="%s::make: pixel and channel whose address becomes the new origin, steps and dimensions of the channel view" % name)
def adjacent(which, lean):
    return Sym(F, r"static constexpr bool adjacent =\s*(.*?);", lean, [("is_step", "bool"), ("planar", "bool"), ("nch", "int")], ret="bool", expr=True, which=which,
               subst=[(r"iterator_is_step<src_x_iterator>::value", "is_step"), (r"is_planar<src_x_iterator>::value", "planar"), (r"num_channels<View>::value", "nch")],
               doc="%s: are the channels of the source's x-iterator adjacent in memory (then the channel view is a plain pointer view)" % ("__kth_channel_view" if which else "__nth_channel_view"))
SYMS += [chan_make(False, False), chan_make(False, True), chan_make(True, False), chan_make(True, True),
         adjacent(0, "nth_channel_is_adjacent"), adjacent(1, "kth_channel_is_adjacent")]
# position_iterator::operator= (virtual_2d_locator stores ONE position_iterator and reinterprets it for the other axis, so an assignment of a
# virtual locator / view must copy the position and BOTH step components)
POSI = "boost/gil/position_iterator.hpp"
SYMS.append(Sym(POSI, r"auto operator=\(position_iterator const& p\) -> position_iterator&", "pos_assign",
                [("p_px", PD), ("p_py", PD), ("p_sx", PD), ("p_sy", PD), ("px", PD), ("py", PD), ("sx", PD), ("sy", PD)], outputs=["px", "py", "sx", "sy"],
                subst=[(r"_p\s*=\s*p\._p;", "px = p_px; py = p_py;"), (r"_d\s*=\s*p\._d;", ""), (r"_step\s*=\s*p\._step;", "sx = p_sx; sy = p_sy;"),
                       (r"return \*this;", "")],
                doc="position_iterator::operator=: position and step of the assigned-to iterator"))
NAMESPACE = "GilVerif.Gen.C02"

def extra_header(include_root):
    """source probe (not a translation): does make_step_iterator keep the function object of a dereference_iterator_adaptor?
       (known finding C02-deref-adaptor-step-drops-functor; 1 once proposed_fixes/C02-deref-adaptor-step-keeps-functor.diff is applied)"""
    import os
    try: text = open(os.path.join(include_root, "boost/gil/step_iterator.hpp")).read()
    except OSError: text = ""
    keeps = 1 if re.search(r"make_step_iterator_impl\(\s*dereference_iterator_adaptor<", text) else 0
    return ("/-- 1 iff step_iterator.hpp has a make_step_iterator_impl overload for dereference_iterator_adaptor (the stepped iterator keeps the\n"
            "    dereference function object); 0: the stepped base is converted back and the function object is default-constructed -/\n"
            "def GilVerif.Gen.C02.deref_step_keeps_functor : Int := %d\n\n" % keeps)

