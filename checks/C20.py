"""C20 -- rasterizers: exactly point_count() points, on the curve, inside its bbox (DESIGN.md section 5, C20)"""
import json, collections
import os
import vlib, C20_syms

VT = ["g8", "rgb8", "rgb8p", "g16", "rgba8", "bgr8", "g32f", "rgb16p"]
WITNESS = "0 0 31 8"         # C20_line_near_witness: (0,0)->(31,8) emits (27,8), 1.03 px from the segment
OLD_BBOX_WITNESS = "0 0 7 1"  # emitted (6,2) before fix 51ba32c (kept as a regression input)
GEN_HEADER = "set_option linter.unusedVariables false\n"

def gen_ops(ctx):
    r, th, ops = ctx.rng, ctx.thorough(), []
    # corpus first: the kernel-checked witness, on the real code, through every entry point
    ops += ["line " + WITNESS, "linex " + WITNESS, "line " + OLD_BBOX_WITNESS, "linex " + OLD_BBOX_WITNESS, "aline g8 " + OLD_BBOX_WITNESS,
            "line 0 0 0 0", "line 0 0 3 1"]
    # --- line: every direction vector of a window, all octants, axis-parallel and diagonal included
    N = 100 if th else 60
    for dx in range(-N, N + 1):
        for dy in range(-N, N + 1):
            ops.append("line 0 0 %d %d" % (dx, dy))
    # translated starts (random, incl. negative coordinates) and long lines
    for _ in range(3000 if th else 400):
        sx, sy = r.range(-1000, 1000), r.range(-1000, 1000)
        ops.append("line %d %d %d %d" % (sx, sy, sx + r.range(-40, 40), sy + r.range(-40, 40)))
    for _ in range(1500 if th else 150):
        sx, sy = r.range(-5000, 5000), r.range(-5000, 5000)
        L = r.choice([100, 500, 3000])
        ops.append("line %d %d %d %d" % (sx, sy, sx + r.range(-L, L), sy + r.range(-L, L)))
    # exact-arithmetic model: every vector whose major extent + 1 is a power of two (all partial sums of the
    # double error term are exact there, so the exact recurrence must reproduce the real code point for point)
    for k in range(1, 8 if th else 7):
        m = 2 ** k - 1
        for d in range(0, m + 1):
            for (a, b) in ((m, d), (d, m)):
                for sa in (1, -1):
                    for sb in (1, -1):
                        ops.append("linex 0 0 %d %d" % (sa * a, sb * b))
    # --- apply_rasterizer(line) on a canary-padded view that is exactly the end points' bounding box
    A = 16 if th else 9
    i = 0
    for dx in range(-A, A + 1):
        for dy in range(-A, A + 1):
            sx, sy = r.range(-20, 20), r.range(-20, 20)
            ops.append("aline %s %d %d %d %d" % (VT[i % len(VT)], sx, sy, sx + dx, sy + dy)); i += 1
    for _ in range(600 if th else 80):
        ops.append("aline %s 0 0 %d %d" % (r.choice(VT), r.range(-120, 120), r.range(-120, 120)))
    # --- circles: every radius of a range, varied centres
    RM, RT = (1024, 400) if th else (160, 96)
    for rad in range(0, RM + 1):
        ops.append("mcirc %d %d %d" % (r.range(-50, 50) if rad % 3 else 0, r.range(-50, 50) if rad % 3 else 0, rad))
    for rad in range(0, RT + 1):
        ops.append("tcirc %d %d %d" % (r.range(-50, 50) if rad % 3 else 0, r.range(-50, 50) if rad % 3 else 0, rad))
    for rad in range(0, (96 if th else 40) + 1):
        ops.append("acirc %s m %d" % (VT[rad % len(VT)], rad))
        ops.append("acirc %s t %d" % (VT[(rad + 3) % len(VT)], rad))
    # --- ellipse: every pair of (documented: positive) semi-axes of a square, plus the degenerate 0 rows
    EA = 96 if th else 28
    for a in range(1, EA + 1):
        for b in range(1, EA + 1):
            ops.append("ell 200 200 %d %d" % (a, b))
    for a in range(0, 8):
        ops.append("ell 9 9 %d 0" % a); ops.append("ell 9 9 0 %d" % a)
    for _ in range(400 if th else 40):
        ops.append("ell 1 1 %d %d" % (r.range(1, 2000), r.range(1, 2000)))
    # apply_rasterizer(ellipse): views that contain the whole ellipse, and views that clip it on every side
    for _ in range(3000 if th else 500):
        a, b = r.range(1, 14), r.range(1, 14)
        if r.chance(1, 2):      # whole: centre (1-based) far enough from the borders
            W, H = 2 * a + 1 + r.range(0, 4), 2 * b + 1 + r.range(0, 4)
            cx, cy = a + 1 + r.range(0, W - 2 * a - 1), b + 1 + r.range(0, H - 2 * b - 1)
        else:                   # clipped: small view, centre anywhere in or around it (0 wraps in unsigned arithmetic)
            W, H = r.range(1, 12), r.range(1, 12)
            cx, cy = r.range(0, W + 3), r.range(0, H + 3)
        ops.append("aell %s %d %d %d %d %d %d" % (r.choice(VT), cx, cy, a, b, W, H))
    return ops

def nontrivial(op):
    w = op.split()
    if w[0] in ("line", "linex"): return (int(w[1]), int(w[2])) != (int(w[3]), int(w[4]))
    if w[0] == "aline": return (int(w[2]), int(w[3])) != (int(w[4]), int(w[5]))
    if w[0] in ("mcirc", "tcirc"): return int(w[3]) >= 1
    if w[0] == "acirc": return int(w[3]) >= 1
    if w[0] == "ell": return int(w[3]) >= 1 and int(w[4]) >= 1
    return True

ASSUME = [
    "line: the structure theorems hold for EVERY decision stream; which stream the double error term produces is observed "
    "(the executable model reproduces it with Lean Float, IEEE double) -- partial (float) for the minor-axis trajectory",
    "midpoint circle: n = point_count()/8 = round(r*cos(pi/4))+1 is floating point; the theorems take n as a parameter with the "
    "integer hypotheses 2(n-1)^2-2(n-1)+1 <= r^2 (or n <= 1) and 2 r^2 <= (2n-1)^2 (n is the nearest integer to r/sqrt 2, plus one), checked for every radius of the run on the real code's point_count()",
    "trigonometric circle: cos/sin/atan2 have no model in the kernel; count and symmetry are proven for any octant list, "
    "bbox and closeness are decided by the Spec on the real code's output only -- partial (transcendental)",
    "ellipse: semi-axes a, b with a*a, b*b < 2^32 (unsigned int products as coded) and no signed 64-bit overflow; "
    "closeness to the ideal ellipse is decided by the Spec on the real code's output only (not proven)",
    "ptrdiff_t / long long arithmetic is modelled unbounded (signed overflow is UB; UBSan watches the harness)",
]

def run(ctx, ops=None):
    vlib.regen(ctx, C20_syms.NAMESPACE, C20_syms.SYMS, GEN_HEADER)
    obligations, discharged = vlib.standard_proof_steps(ctx)
    if any(b[0] == "theorem" and not b[1].startswith("C20_") for b in ctx.broken):
        discharged = 0      # a helper lemma broke: the module did not compile, nothing after it was checked
    if not os.path.isfile(os.path.join(ctx.include, "boost/gil/extension/rasterization/line.hpp")):
        ctx.broken.append(("harness", "include root", "%s does not hold the headers under test" % ctx.include))
    binary, err = vlib.compile_harness(ctx, "harness/C20/main.cpp")
    samples, distinct, extra = [], 0, {}
    if binary is None:
        ctx.broken.append(("harness", "compile", err[-1500:])); ctx.log("harness does not compile:\n" + err[-1500:])
    else:
        ops = ops or gen_ops(ctx)
        impl, model = vlib.correspond(ctx, binary, "drv_C20", ops)
        distinct = len({o for o in ops if nontrivial(o)})
        # measured distribution: ops per kind, judged verdicts per (kind, clause), emitted points
        verdicts = vlib.run_driver(ctx, "drv_C20", "judge", [o + "\t" + r for o, r in zip(ops, impl)])
        byv = collections.Counter("%s:%s" % (o.split()[0], v) for o, v in zip(ops, verdicts))
        extra["verdicts_by_kind"] = dict(sorted(byv.items()))
        extra["ops_by_kind"] = dict(collections.Counter(o.split()[0] for o in ops))
        extra["points_judged"] = sum(max(0, (len(r.split()) - 2) // 2) for o, r in zip(ops, impl) if o.split()[0] in ("line", "linex", "mcirc", "tcirc", "ell"))
        window = list({o: v for o, v in zip(ops, verdicts) if o.startswith("line 0 0 ")}.items())
        extra["line_window_vectors"] = len(window)
        extra["line_window_leaving_bbox"] = sum(1 for o, v in window if v == "fail bbox")
        extra["line_window_beyond_one_pixel_only"] = sum(1 for o, v in window if v == "fail within-one-pixel")
        # hypothesis of C20_circle_on_curve / C20_circle_bbox, checked on the real code's point_count() for every radius of the run
        for o, r in zip(ops, impl):
            w = o.split()
            if w[0] == "mcirc" and r.split() and r.split()[0].lstrip("-").isdigit():
                rad, n = int(w[3]), int(r.split()[0]) // 8
                if not (n <= 1 or 2 * (n - 1) ** 2 - 2 * (n - 1) + 1 <= rad * rad):
                    ctx.broken.append(("assumption", "octant-bound " + o, "point_count()/8 = %d violates 2(n-1)^2-2(n-1)+1 <= r^2" % n))
                if not (n >= 1 and 2 * rad * rad <= (2 * n - 1) ** 2):     # hypothesis of C20_circle_reaches_diagonal
                    ctx.broken.append(("assumption", "diagonal-bound " + o, "point_count()/8 = %d violates 2 r^2 <= (2n-1)^2: the octant arc stops short of the diagonal" % n))
        # the witness theorem's input must fail on the real code exactly as the theorem says
        wi = ops.index("line " + WITNESS) if ("line " + WITNESS) in ops else None
        if wi is not None and (verdicts[wi] != "fail within-one-pixel" or " 27 8 " not in " " + impl[wi] + " "):
            ctx.notes.append("C20_line_near_witness no longer reproduces on the real code: %s -> %s" % (impl[wi], verdicts[wi]))
            extra["witness_reproduces"] = False
        elif wi is not None: extra["witness_reproduces"] = True
        for i in (0, 1, 2, len(ops) // 4, len(ops) // 2, 3 * len(ops) // 4, len(ops) - 1):
            if i < len(ops): samples.append({"op": ops[i][:120], "impl": impl[i][:200], "model": model[i][:200], "judge": verdicts[i]})
    return vlib.finish(ctx, "proof", obligations, discharged,
        rule="op lines: every direction vector of a (2N+1)^2 window (N=60 quick / 100 thorough) from the origin + random translated and long lines; "
             "exact-arithmetic line model on every vector with power-of-two major extent; apply_rasterizer(line) on canary-padded bbox views over 8 view types; "
             "midpoint / trigonometric circle for every radius 0..R; apply_rasterizer(circle) on canary-padded bbox views; every ellipse semi-axes pair of a square "
             "+ random large ones; apply_rasterizer(ellipse) on whole and clipping views. non-trivial = start != end / radius >= 1 / both semi-axes >= 1 (distinct op lines counted)",
        samples=samples, distinct_nontrivial=distinct, assumptions=ASSUME, trusted_base=vlib.TRUSTED_BASE + [
            "Lean Float (IEEE double, the CPU's operations) reproduces the C++ double error term; Float.cos/sin/atan2/round call the same libm as the C++ harness (model side of the correspondence only; no theorem depends on them)"],
        extra=extra, exhaustive=False)

def replay(ctx, path):
    rp = json.load(open(path))
    ops = rp.get("op_lines") or []
    if not ops: return run(ctx)
    return run(ctx, ops=ops)
