"""C15 -- convolution / correlation equal the textbook sums for every boundary policy (DESIGN.md section 5, C15)"""
import json, struct, concurrent.futures
import vlib

# harness translation units (compiled in parallel): define -> pixel type sets / op kinds served
TUS = {"PT_A": ["g32s"], "PT_B": ["rgb32s"], "PT_C": ["g8", "g16s"], "PT_D": ["rgb8p"], "PT_E": ["g32f"], "PT_F": ["c2", "ex"], "PT_G": ["g8f", "rgb8f", "g16f"]}
NCH = {"g8f": 1, "rgb8f": 3, "g16f": 1, "g32s": 1, "rgb32s": 3, "g8": 1, "g16s": 1, "rgb8p": 3, "g32f": 1, "rgb8": 3}
FNS = ["cr", "cc", "vr", "vc"]

def f32bits(x): return struct.unpack("<I", struct.pack("<f", x))[0]

MIXED = ("g8f", "rgb8f", "g16f")

def pix(r, pt, pad=False):
    """one sample; padding samples come from a disjoint, larger range so that reading them shows"""
    if pt in MIXED: return r.range(70, 100) if pad else r.range(0, 60)       # sums stay inside the 8-bit destination
    if pt == "g32f":
        if pad: return f32bits(64.0 + r.below(64) / 4.0)
        return f32bits((r.range(-80, 80)) / 8.0) if r.chance(2, 3) else f32bits(r.below(1 << 20) / float(1 << 20))
    if pt in ("g8", "rgb8p", "rgb8"): return r.range(200, 255) if pad else r.range(0, 120)
    if pt == "g16s": return r.range(2000, 3000) if pad else r.range(-1000, 1000)
    return r.range(500, 900) if pad else r.range(-100, 100)

def tap(r, pt, ks=2):
    if pt in MIXED:       # non-negative multiples of 1/8 (exact in float32); a single tap is always fractional
        return f32bits(r.choice([0.5, 1.5, 0.25, 0.75, 1.25, 0.125, 2.5])) if ks == 1 else f32bits(r.range(0, 3) / 8.0)
    return tap_(r, pt)

def tap_(r, pt):
    if pt == "g32f": return f32bits(r.range(-16, 16) / 8.0) if r.chance(2, 3) else f32bits(r.below(1 << 16) / float(1 << 16) - 0.5)
    return r.range(-9, 9)

def op_c1(r, fn, var, pt, opt, w, h, ks, c):
    cols = fn in ("cc", "vc"); P = ks - 1
    W, H = (w, h + 2 * P) if cols else (w + 2 * P, h)
    planes = []
    for _ in range(NCH[pt]):
        vals = []
        for y in range(H):
            for x in range(W):
                inner = (P <= y < P + h) if cols else (P <= x < P + w)
                vals.append(pix(r, pt, pad=not inner))
        planes.append(" ".join(map(str, vals)))
    taps = " ".join(str(tap(r, pt, ks)) for _ in range(ks))
    S = r.range(100000, 900000)
    return "c1 %s %s %s %d %d %d %d %d %d | %s | %s" % (fn, var, pt, opt, w, h, ks, c, S, taps, " | ".join(planes))

def op_c2(r, pt, kt, w, h, ks, cy, cx):
    ptv = {"g32s": "g32s", "rgb32s": "rgb32s", "g8": "g8", "g16s": "g16s"}[pt]
    planes = [" ".join(str(pix(r, ptv)) for _ in range(w * h)) for _ in range(NCH[pt])]
    taps = " ".join(str(r.range(-9, 9)) for _ in range(ks * ks))
    return "c2 %s %s %d %d %d %d %d %d | %s | %s" % (pt, kt, w, h, ks, cy, cx, r.range(100000, 900000), taps, " | ".join(planes))

def op_ex(r, which, pt, opt, w, h, n):
    W, H = w + 2 * n, h + 2 * n
    planes = []
    for _ in range(NCH[pt]):
        vals = [pix(r, pt, pad=not (n <= x < n + w and n <= y < n + h)) for y in range(H) for x in range(W)]
        planes.append(" ".join(map(str, vals)))
    return "ex %s %s %d %d %d %d | %s" % (which, pt, opt, w, h, n, " | ".join(planes))

def gen_ops(ctx):
    r, th = ctx.rng, ctx.thorough()
    ops = []
    N = 12 if th else 7                # widths 0..N along the correlation axis
    KS = 7 if th else 5                # complete kernel sizes 1..KS with every centre
    other = [0, 1, 2, 3, 5] if th else [0, 1, 2, 3]
    # 1. complete cross product on gray32s, dynamic kernels
    for fn in FNS:
        cols = fn in ("cc", "vc")
        for along in range(N + 1):
            for o in other:
                w, h = (o, along) if cols else (along, o)
                for ks in range(1, KS + 1):
                    for c in range(ks):
                        for opt in range(5):
                            ops.append(op_c1(r, fn, "dyn", "g32s", opt, w, h, ks, c))
    # 2. fixed-size kernels (odd sizes), every centre
    for fn in FNS:
        cols = fn in ("cc", "vc")
        for along in range(N + 1):
            for o in ([1, 2, 3] if th else [1, 2]):
                w, h = (o, along) if cols else (along, o)
                for ks in ([1, 3, 5, 7, 9] if th else [1, 3, 5]):
                    for c in range(ks):
                        for opt in range(5):
                            ops.append(op_c1(r, fn, "fix", "g32s", opt, w, h, ks, c))
    # 3. other pixel types / larger kernels: random structured sample
    def rnd(pt, n, fixed_share=4, kmax=None):
        for _ in range(n):
            fn = r.choice(FNS); fixed = r.below(fixed_share) == 0
            ks = r.choice([1, 3, 5, 7, 9]) if fixed else r.range(1, 9 if th else 7)
            if kmax: ks = r.choice([1, 3, 5]) if fixed else r.range(1, kmax)
            c = r.below(ks); opt = r.below(5)
            w, h = r.range(0, N + 2), r.range(0, N + 2)
            if r.chance(1, 6): w = r.below(ks + 1)           # narrower than the kernel
            ops.append(op_c1(r, fn, "fix" if fixed else "dyn", pt, opt, w, h, ks, c))
    for pt in ("rgb32s", "g8", "g16s", "rgb8p"): rnd(pt, 1500 if th else 350)
    rnd("g32s", 2000 if th else 300)
    rnd("g32f", 3000 if th else 700)
    # 3b. integral pixels with a float accumulator and FRACTIONAL taps (the stored value is the truncated float sum):
    #     one-tap kernels (the view_multiplies_scalar shortcut) through all eight entry points x five options, plus longer kernels
    for pt in MIXED:
        for fn in FNS:
            for var, sizes in (("dyn", [1, 1, 2, 3]), ("fix", [1, 1, 3])):
                for ks in sizes:
                    for opt in range(5):
                        for (w, h) in ([(3, 2), (1, 1), (0, 2)] if not th else [(3, 2), (1, 1), (0, 2), (5, 3), (2, 0)]):
                            ops.append(op_c1(r, fn, var, pt, opt, w, h, ks, r.below(ks)))
        rnd(pt, 600 if th else 120, kmax=5)       # at most 5 taps of at most 3/8 on pixels <= 100: the sum fits 8 bits
    # 4. convolve_2d: every shape x kernel size x centre (gray32s), samples of the other types
    M = 6 if th else 4
    for w in range(M + 1):
        for h in range(M + 1):
            for ks in range(1, (5 if th else 4) + 1):
                for cy in range(ks):
                    for cx in range(ks):
                        ops.append(op_c2(r, "g32s", "if"[(w + h + cy + cx) % 2], w, h, ks, cy, cx))
    for ks in (1, 3, 5):
        for cy in range(ks):
            for cx in range(ks):
                for (w, h) in [(1, 1), (2, 3), (4, 2), (5, 5)]:
                    ops.append(op_c2(r, "g32s", "x", w, h, ks, cy, cx))
    for pt in ("rgb32s", "g8", "g16s"):
        for _ in range(400 if th else 120):
            ks = r.range(1, 5); ops.append(op_c2(r, pt, r.choice("ifx") if ks % 2 else r.choice("if"), r.range(0, M + 2), r.range(0, M + 2), ks, r.below(ks), r.below(ks)))
    # 5. extend_row / extend_col / extend_boundary (non-empty sources: padding an empty image is not defined for
    #    extend_constant and gil::image reports 0x0 for zero-area results)
    E = 6 if th else 4
    for which in ("row", "col", "bnd"):
        for opt in (2, 3, 4):
            for w in range(1, E + 1):
                for h in range(1, E + 1):
                    for n in range(0, 4 if th else 3):
                        ops.append(op_ex(r, which, "g32s", opt, w, h, n))
            for pt in ("rgb8", "g16s"):
                for _ in range(120 if th else 40):
                    ops.append(op_ex(r, which, pt, opt, r.range(1, E + 2), r.range(1, E + 2), r.range(0, 4)))
    return ops

def tu_of(op):
    w = op.split(None, 4)
    if w[0] in ("c2", "ex"): return "PT_F"
    for d, pts in TUS.items():
        if w[3] in pts: return d
    return "PT_A"

def nontrivial(op):
    w = op.split(None, 10)
    if w[0] == "c1": return int(w[5]) > 0 and int(w[6]) > 0 and int(w[7]) >= 2     # non-empty image, kernel longer than 1
    if w[0] == "c2": return int(w[3]) > 0 and int(w[4]) > 0 and int(w[5]) >= 2
    if w[0] == "ex": return int(w[6]) > 0
    return False

ASSUME = [
    "accumulators do not overflow: the theorems are over unbounded Int; the harness uses int32 accumulators with |pixel| <= 3000, |tap| <= 9, kernel length <= 9 (signed overflow would be UB and is checked by UBSan)",
    "float32 accumulators (pixel type g32f): partial (float) RELATIVE TO FloatSpec -- the same generic model instantiated with the rounded arithmetic of an arbitrary FloatSpec is proved to be within ((1+eps)^(2n)-1)*(sum|terms| + n*tiny) <= 4*n*eps*(...) of the textbook sum (Props/C15Float.lean, C15_float_*): the judge's tolerance ks*2.4e-7*sum|terms|; trusted: the target's binary32 arithmetic satisfies FloatSpec (eps = 2^-24) and accumulates left to right without FMA; the model instantiated with Float32 reproduces the accumulation bit for bit",
    "convolve_2d accumulates in float: the Int model agrees while sum|terms| <= 2^24 on integer data (C15_float_exact_on_small_integers proves the float accumulation exact under FloatSpec; true for the generated values)",
    "multi-channel pixels are processed channel by channel (static_transform): the model is per channel; observed through rgb32s / planar rgb8 sources, not proven",
    "extend_row/col/boundary: sources are non-empty (extend_constant of an empty image is undefined; gil::image reports 0x0 for zero-area results); options output_ignore/output_zero are outside their contract (BOOST_ASSERT_MSG(false))",
]

def compile_all(ctx):
    bins, errs = {}, []
    with concurrent.futures.ThreadPoolExecutor(max_workers=6) as ex:
        futs = {d: ex.submit(vlib.compile_harness, ctx, "harness/C15/main.cpp", "C15_" + d, (), (), True, "-O1", (d,)) for d in TUS}
        for d, f in futs.items():
            b, e = f.result()
            if b is None: errs.append((d, e))
            else: bins[d] = b
    return bins, errs

def run(ctx, ops=None):
    obligations, discharged = vlib.standard_proof_steps(ctx, extra_props=["GilVerif.Props.C15Float"])
    bins, errs = compile_all(ctx)
    samples, distinct = [], 0
    for d, e in errs:
        ctx.broken.append(("harness", "compile " + d, e[-1500:])); ctx.log("harness %s does not compile:\n%s" % (d, e[-1500:]))
    ops = ops or gen_ops(ctx)
    groups = {}
    for o in ops: groups.setdefault(tu_of(o), []).append(o)
    kinds = {}
    for d in sorted(groups):
        if d not in bins: continue
        g = groups[d]
        impl, model = vlib.correspond(ctx, bins[d], "drv_C15", g, label=d)
        for i in (0, len(g) // 2, len(g) - 1):
            samples.append({"op": g[i][:160], "impl": impl[i][:160], "model": model[i][:160]})
    for o in ops:
        w = o.split(None, 5); k = w[0] + ":" + (w[1] + "/" + w[2] + "/opt" + w[4] if w[0] == "c1" else w[1])
        kinds[k] = kinds.get(k, 0) + 1
    distinct = len({o for o in ops if nontrivial(o)})
    return vlib.finish(ctx, "proof", obligations, discharged,
        rule="op lines: complete cross product (4 functions x 5 options x widths 0..N x kernel sizes 1..K x every centre, dynamic; odd sizes for fixed kernels) on gray32s, "
             "random structured sample on rgb32s / gray8->32s / gray16s->32s / planar rgb8->rgb32s / gray32f; integral pixels with float accumulator and fractional taps (gray8, rgb8, gray16; one-tap kernels through all 8 entry points x 5 options); convolve_2d: every shape x size x centre; extend_*: every shape x count x option; "
             "non-trivial = non-empty image and kernel length >= 2 (c1, c2) or extend count > 0 (ex); distinct op lines counted",
        samples=samples, distinct_nontrivial=distinct, assumptions=ASSUME, trusted_base=vlib.TRUSTED_BASE,
        extra={"input_distribution": kinds, "translator_symbols": None,
               "open_statements": ["float accumulators: proved relative to FloatSpec only (partial (float))"]},
        exhaustive=False)

def replay(ctx, path):
    rp = json.load(open(path))
    ops = rp.get("op_lines") or []
    if not ops: return run(ctx)
    return run(ctx, ops=ops)
