"""translator whitelist for C18 (toolbox colour spaces): the 8-bit integer formulas of ycbcr_601 -> rgb and the 8-bit
luminance kernel that the toolbox luminance converter is compared with."""
from cxx2lean import Sym
import C06_syms
H = "boost/gil/extension/toolbox/color_spaces/ycbcr.hpp"
HC = "boost/gil/color_convert.hpp"
NAMESPACE = "GilVerif.Gen.C18"

def chan(lean, which):
    # one channel of default_color_converter_impl<ycbcr_601__t, rgb_t>::convert(..., true_type):
    #   detail::clamp(v, 0, 255) = (v < 0) ? 0 : (255 < v) ? 255 : v  is rendered as max(0, min(255, v));
    #   std::int_fast16_t is `long` on this platform; src_channel_t = uint8_t (channel_convert to itself is the identity)
    return Sym(H, r"void convert\( const Src_Pixel& src\s*,\s*Dst_Pixel& dst\s*, std::true_type // is 8 bit channel\s*\) const", lean,
               [("y_in", "uint8_t"), ("cb_in", "uint8_t"), ("cr_in", "uint8_t")], ret="uint8_t",
               subst=[(r"using namespace [^;]*;", ""), (r"using \w+ = [^;]*;", ""),
                      (r"src_channel_t (\w+)\s*= channel_convert<src_channel_t>\( get_color\(src,\s*(\w+)_t\(\)\)\);", r"uint8_t \1 = \2_in;"),
                      (r"std::int_fast16_t", "long"),
                      (r"detail::clamp\(([^;]*?),\s*0,\s*255\s*\)", r"std::max(0, std::min(255, \1))"),
                      (r"get_color\( dst,\s*\w+\(\) \)\s*= \(dst_channel_t\) \w+;", ""),
                      (r"\}\s*$", "return (uint8_t) %s; }" % which)],
               doc="ycbcr_601 -> rgb, 8-bit destination: the %s channel" % which)

SYMS = [
    chan("ycbcr601_red", "red"), chan("ycbcr601_green", "green"), chan("ycbcr601_blue", "blue"),
    Sym(HC, r"struct rgb_to_luminance_fn<uint8_t,uint8_t,uint8_t, GrayChannelValue> \{\s*auto operator\(\)\(uint8_t red, uint8_t green, uint8_t blue\) const -> GrayChannelValue",
        "lum8", [("red", "uint8_t"), ("green", "uint8_t"), ("blue", "uint8_t")], ret="uint8_t",
        subst=[(r"channel_convert<GrayChannelValue>\(", "(")], doc="core 8-bit luminance (the toolbox double luminance is compared with it)"),
    # channel kernels of the depth-changing gray_alpha / gray -> rgba conversions
    Sym("boost/gil/channel_algorithm.hpp", r"struct channel_multiplier_unsigned<uint16_t>.*?auto operator\(\)\(uint16_t a, uint16_t b\) const -> uint16_t", "mul_u16",
        [("a", "uint16_t"), ("b", "uint16_t")], ret="uint16_t"),
    C06_syms.kernel("up_div", "B8", "B16"), C06_syms.kernel("down_div", "B16", "B8"),
]
