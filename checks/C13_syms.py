"""translator whitelist for C13: the bmp reader's row offset (where sub-rectangle and scanline reads seek to)"""
from cxx2lean import Sym
H = "boost/gil/extension/io/bmp/detail/read.hpp"
SYMS = [
    Sym(H, r"long get_offset\( std::ptrdiff_t pos \)", "bmp_get_offset",
        [("pos", "std::ptrdiff_t"), ("height", "int32_t"), ("offset", "uint32_t"), ("pitch", "std::size_t")], ret="long",
        subst=[(r"this->_info\._height", "height"), (r"this->_info\._offset", "offset"), (r"\b_pitch\b", "pitch")],
        doc="bmp reader::get_offset(pos): file offset of image row pos (members _info._height, _info._offset, _pitch as parameters)"),
]
NAMESPACE = "GilVerif.Gen.C13"
