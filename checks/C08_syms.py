"""translator whitelist for C08 (bit cursor arithmetic of bit_range; byte count of the run-time
   first-bit channel reference)"""
from cxx2lean import Sym
HB = "boost/gil/bit_aligned_pixel_reference.hpp"
HC = "boost/gil/channel.hpp"
HI = "boost/gil/bit_aligned_pixel_iterator.hpp"

# bit_range<RangeSize,IsMutable>: the byte pointer is modelled as an integer address (ptrdiff_t)
STATE = [("_current_byte", "std::ptrdiff_t"), ("_bit_offset", "int")]

SYMS = [
    Sym(HB, r"void bit_advance\(difference_type num_bits\)", "bit_advance",
        STATE + [("num_bits", "difference_type")], outputs=["_current_byte", "_bit_offset"],
        doc="bit_range::bit_advance (since 30b4cc6 the sum is kept in difference_type; only the remainder is cast to int)"),
    Sym(HB, r"auto operator\+\+\(\) -> bit_range&", "bit_inc",
        STATE + [("RangeSize", "int")], outputs=["_current_byte", "_bit_offset"],
        subst=[(r"return \*this;", "")],
        doc="bit_range::operator++ (RangeSize is the template parameter: bits per pixel)"),
    Sym(HB, r"auto bit_distance_to\(bit_range const& b\) const -> difference_type", "bit_distance_to",
        STATE + [("b_byte", "std::ptrdiff_t"), ("b_off", "int")], ret="difference_type",
        subst=[(r"b\.current_byte\(\)", "b_byte"), (r"b\.bit_offset\(\)", "b_off"),
               (r"(?<![.\w])current_byte\(\)", "_current_byte"), (r"(?<![.\w])bit_offset\(\)", "_bit_offset")],
        doc="bit_range::bit_distance_to(b)"),
    # packed_dynamic_channel_reference<BitField,NumBits,true>::data_size (which=1: the mutable specialisation;
    # which=0 is the read-only one, translated too so that both stay equal)
    Sym(HC, r"auto data_size\(\) const -> std::size_t", "data_size_const",
        [("_first_bit", "unsigned"), ("NumBits", "int"), ("fieldBytes", "std::size_t")], ret="std::size_t",
        subst=[(r"sizeof\(BitField\)", "fieldBytes")], which=0,
        doc="packed_dynamic_channel_reference<BitField,NumBits,false>::data_size, fieldBytes = sizeof(BitField)"),
    Sym(HC, r"auto data_size\(\) const -> std::size_t", "data_size",
        [("_first_bit", "unsigned"), ("NumBits", "int"), ("fieldBytes", "std::size_t")], ret="std::size_t",
        subst=[(r"sizeof\(BitField\)", "fieldBytes")], which=1,
        doc="packed_dynamic_channel_reference<BitField,NumBits,true>::data_size, fieldBytes = sizeof(BitField)"),
]

# ---- the read-modify-write expressions themselves, instantiated for bit fields whose arithmetic is unsigned from end
# to end (uint32_t / uint64_t: no int promotion, so `~mask` stays inside the translator subset).  The theorems
# C08_gen_* prove each generated body EQUAL to the hand model (setD / getD / setF / getF / chanMask) for all inputs,
# so an edit of the template text that changes behaviour breaks a named theorem even before the correspondence runs.
# occurrence numbers: `set_unsafe`: 0 = packed_channel_reference, 1 = packed_dynamic_channel_reference;
# `get() const -> integer_t`: 0 = base class, 1/2 = packed_channel_reference const/mutable, 3/4 = dynamic const/mutable
def _rmw(lean, which, bf, it, dynamic):
    first = "_first_bit" if dynamic else "FirstBit"
    params = [("f", bf), ("value", it), (first, "unsigned"), ("maxv", bf)] if dynamic else [("f", bf), ("value", it), (first, "int"), ("channel_mask", bf)]
    subst = [(r"this->set_data\((.*), data_size\(\)\);", r"return \1;"), (r"this->set_data\((.*)\);", r"return \1;"),
             (r"this->get_data\(data_size\(\)\)", "f"), (r"this->get_data\(\)", "f"),
             (r"BitField", bf), (r"parent_t::max_val", "maxv"), (r"integer_t", it)]
    return Sym(HC, r"void set_unsafe\(integer_t value\) const", lean, params, ret=bf, subst=subst, which=which,
               doc="%s::set_unsafe with BitField = %s, integer_t = %s; f = the bit field read by get_data" % ("packed_dynamic_channel_reference" if dynamic else "packed_channel_reference", bf, it))
def _get(lean, which, bf, it, dynamic):
    first = "_first_bit" if dynamic else "FirstBit"
    params = [("f", bf), (first, "unsigned"), ("maxv", bf)] if dynamic else [("f", bf), (first, "int"), ("channel_mask", bf)]
    subst = [(r"this->get_data\(data_size\(\)\)", "f"), (r"this->get_data\(\)", "f"), (r"BitField", bf), (r"parent_t::max_val", "maxv"), (r"integer_t", it)]
    return Sym(HC, r"auto get\(\) const -> integer_t", lean, params, ret=it, subst=subst, which=which,
               doc="get() (occurrence %d) with BitField = %s, integer_t = %s" % (which, bf, it))
def _mask(lean, which, bf):
    return Sym(HC, r"static const BitField channel_mask = (static_cast<\s*BitField\s*>\(\s*parent_t::max_val\s*\) << FirstBit);", lean,
               [("maxv", bf), ("FirstBit", "int")], ret=bf, subst=[(r"BitField", bf), (r"parent_t::max_val", "maxv")], expr=True, which=which,
               doc="packed_channel_reference::channel_mask (occurrence %d) with BitField = %s" % (which, bf))
SYMS += [
    _rmw("dyn_set_u32", 1, "uint32_t", "uint8_t", True), _get("dyn_get_u32", 4, "uint32_t", "uint8_t", True), _get("dyn_get_const_u32", 3, "uint32_t", "uint8_t", True),
    _rmw("dyn_set_u64", 1, "uint64_t", "uint32_t", True), _get("dyn_get_u64", 4, "uint64_t", "uint32_t", True), _get("dyn_get_const_u64", 3, "uint64_t", "uint32_t", True),
    _mask("stat_mask_const_u32", 0, "uint32_t"), _mask("stat_mask_u32", 1, "uint32_t"),
    _rmw("stat_set_u32", 0, "uint32_t", "uint8_t", False), _get("stat_get_u32", 2, "uint32_t", "uint8_t", False), _get("stat_get_const_u32", 1, "uint32_t", "uint8_t", False),
]
NAMESPACE = "GilVerif.Gen.C08"
