"""translator whitelist for C08 (bit cursor arithmetic of bit_range; byte count of the run-time
   first-bit channel reference)"""
from cxx2lean import Sym
HB = "boost/gil/bit_aligned_pixel_reference.hpp"
HC = "boost/gil/channel.hpp"
HI = "boost/gil/bit_aligned_pixel_iterator.hpp"

# bit_range<RangeSize,IsMutable>: the byte pointer is modelled as an integer address (ptrdiff_t)
STATE = [("_current_byte", "std::ptrdiff_t"), ("_bit_offset", "int")]

SYMS = [
    Sym(HB, r"void bit_advance\(difference_type num_bits\)", "bit_advance",
        STATE + [("num_bits", "difference_type")], outputs=["_current_byte", "_bit_offset"],
        doc="bit_range::bit_advance (since 30b4cc6 the sum is kept in difference_type; only the remainder is cast to int)"),
    Sym(HB, r"auto operator\+\+\(\) -> bit_range&", "bit_inc",
        STATE + [("RangeSize", "int")], outputs=["_current_byte", "_bit_offset"],
        subst=[(r"return \*this;", "")],
        doc="bit_range::operator++ (RangeSize is the template parameter: bits per pixel)"),
    Sym(HB, r"auto bit_distance_to\(bit_range const& b\) const -> difference_type", "bit_distance_to",
        STATE + [("b_byte", "std::ptrdiff_t"), ("b_off", "int")], ret="difference_type",
        subst=[(r"b\.current_byte\(\)", "b_byte"), (r"b\.bit_offset\(\)", "b_off"),
               (r"(?<![.\w])current_byte\(\)", "_current_byte"), (r"(?<![.\w])bit_offset\(\)", "_bit_offset")],
        doc="bit_range::bit_distance_to(b)"),
    # packed_dynamic_channel_reference<BitField,NumBits,true>::data_size (which=1: the mutable specialisation;
    # which=0 is the read-only one, translated too so that both stay equal)
    Sym(HC, r"auto data_size\(\) const -> std::size_t", "data_size_const",
        [("_first_bit", "unsigned"), ("NumBits", "int"), ("fieldBytes", "std::size_t")], ret="std::size_t",
        subst=[(r"sizeof\(BitField\)", "fieldBytes")], which=0,
        doc="packed_dynamic_channel_reference<BitField,NumBits,false>::data_size, fieldBytes = sizeof(BitField)"),
    Sym(HC, r"auto data_size\(\) const -> std::size_t", "data_size",
        [("_first_bit", "unsigned"), ("NumBits", "int"), ("fieldBytes", "std::size_t")], ret="std::size_t",
        subst=[(r"sizeof\(BitField\)", "fieldBytes")], which=1,
        doc="packed_dynamic_channel_reference<BitField,NumBits,true>::data_size, fieldBytes = sizeof(BitField)"),
]
NAMESPACE = "GilVerif.Gen.C08"
