"""translator whitelist for C09 (default colour conversion): the 8-bit luminance kernel of color_convert.hpp and the
channel kernels of channel_algorithm.hpp that the 8/16-bit colour conversions are composed of (re-translated here so
that the C09 model follows the current source without depending on another property's generated file)."""
from cxx2lean import Sym
import C06_syms, C07_syms
H = "boost/gil/color_convert.hpp"
HC = "boost/gil/channel_algorithm.hpp"
NAMESPACE = "GilVerif.Gen.C09"

SYMS = [
    Sym(H, r"struct rgb_to_luminance_fn<uint8_t,uint8_t,uint8_t, GrayChannelValue> \{\s*auto operator\(\)\(uint8_t red, uint8_t green, uint8_t blue\) const -> GrayChannelValue",
        "lum8", [("red", "uint8_t"), ("green", "uint8_t"), ("blue", "uint8_t")], ret="uint8_t",
        subst=[(r"channel_convert<GrayChannelValue>\(", "(")],
        doc="rgb_to_luminance_fn<uint8_t,uint8_t,uint8_t,G>: the fixed-point luminance before the final channel_convert<G>"),
    Sym(HC, r"inline auto div255\(uint32_t in\) -> uint32_t", "div255", [("in", "uint32_t")], ret="uint32_t"),
    Sym(HC, r"struct channel_multiplier_unsigned<uint8_t>.*?auto operator\(\)\(uint8_t a, uint8_t b\) const -> uint8_t", "mul_u8",
        [("a", "uint8_t"), ("b", "uint8_t")], ret="uint8_t", calls={"detail::div255": "div255"}),
    Sym(HC, r"struct channel_multiplier_unsigned<uint16_t>.*?auto operator\(\)\(uint16_t a, uint16_t b\) const -> uint16_t", "mul_u16",
        [("a", "uint16_t"), ("b", "uint16_t")], ret="uint16_t"),
    C07_syms.invert("invert_u8", "uint8_t", "int"), C07_syms.invert("invert_u16", "uint16_t", "long"),
    C06_syms.kernel("up_div", "B8", "B16"), C06_syms.kernel("down_div", "B16", "B8"),
]
