"""C10 -- image is a leak-free deep-value container over any operation history (DESIGN.md section 5, C10)

One op line = one complete history over 4 (+2 partner) image slots of one pixel organisation and one allocator
kind, optionally with one injected fault (the k-th allocation / the k-th element construction throws).
The harness is compiled once per allocator kind (and for two kinds additionally with -DNDEBUG), in parallel."""
import json, os, re, subprocess, concurrent.futures
import vlib, C10_syms

ORGS = ["rgb8", "rgb8p", "gray16", "rgb565", "gray1", "elem", "elemp"]
VMAX = {"elemp": 200, "rgb8": 200, "rgb8p": 200, "gray16": 200, "rgb565": 31, "gray1": 1, "elem": 200}
PARTNER = {"rgb8", "rgb8p"}
ALLOCS = ["se", "sf00", "sf01", "sf10", "sf11", "pmr"]
POCS = {"sf01", "sf11"}
DIMS = [0, 1, 2, 3, 5, 8]
ALIGNS = [0, 1, 2, 4, 8, 16, 32]
BUILDS = [(a, "dbg") for a in ALLOCS] + [("sf00", "rel"), ("pmr", "rel")]
MUTATORS = ("assign", "cassign", "massign", "swap", "rec", "recf", "reca", "recfa")

# ------------------------------------------------------------------ directed histories (witnesses, boundary shapes)
def directed(mc):
    H = []
    def h(mode, org, alloc, fa, fc, *ops): H.append("h %s %s %s %d %d %s | %s" % (mode, org, alloc, fa, fc, mc, " | ".join(ops)))
    for mode in ("dbg", "rel"):
        for alloc in ("pmr", "sf00"):
            # recreate / copy assignment between unequal non-propagating allocators (swap with a temporary)
            h(mode, "rgb8", alloc, 0, 0, "dims 0 1 0 3 2 7", "rec 0 8 8 0 1")
            h(mode, "rgb8", alloc, 0, 0, "dims 0 1 0 3 2 7", "recf 0 8 8 3 0")
            h(mode, "rgb8", alloc, 0, 0, "dims 0 1 0 3 2 7", "reca 0 5 5 0 2 3")
            h(mode, "gray16", alloc, 0, 0, "dims 0 0 0 3 2 7", "recfa 0 5 5 9 4 2", "destroy 0")
            h(mode, "rgb8", alloc, 0, 0, "dims 0 1 0 3 2 7", "dims 1 2 0 4 4 1", "assign 0 1")
            h(mode, "rgb8", alloc, 0, 0, "dims 0 1 0 3 2 7", "dims 1 2 0 4 4 1", "massign 0 1", "write 0 1 1 5", "massign 1 0")
            h(mode, "rgb8", alloc, 0, 0, "dims 0 1 0 3 2 7", "dflt 1 2 4", "massign 0 1")
            h(mode, "rgb8p", alloc, 0, 0, "dims 0 1 8 3 2 7", "dims 4 2 0 4 4 1", "cassign 0 4")
            # copy of an image whose dimensions are 5x0 (reachable through recreate's reuse branch)
            h(mode, "rgb8", alloc, 0, 0, "dflt 0 0 0", "rec 0 5 0 0 1", "copy 1 0")
            h(mode, "rgb8", alloc, 0, 0, "dflt 0 0 0", "rec 0 0 5 0 1", "dims 1 0 0 2 2 3", "assign 1 0")
    for alloc in ALLOCS:
        # move assignment into a NON-EMPTY target between unequal allocator instances, every allocator kind (propagating: the target's old
        # block must be released through the target's own allocator before the source's allocator is adopted), also chained and with an empty source
        for org in ("rgb8", "elem", "gray1", "elemp"):
            h("dbg", org, alloc, 0, 0, "dims 0 1 0 3 2 1", "dims 1 2 0 4 4 1", "massign 0 1", "write 0 1 1 0", "dims 2 0 8 2 2 1", "massign 2 0", "massign 1 2", "destroy 1")
            h("dbg", org, alloc, 0, 0, "dims 0 2 4 5 3 1", "dflt 1 1 0", "massign 0 1", "dims 2 0 0 1 1 0", "massign 1 2", "massign 2 0")
            h("dbg", org, alloc, 0, 0, "dims 0 1 0 3 2 1", "dims 1 2 0 4 4 0", "move 2 1", "massign 0 2", "massign 2 0", "swap 0 0")
        # move assignment from a degenerate source (0 x 2 / 5 x 0: no storage) into a non-empty target with another allocator instance
        h("dbg", "rgb8", alloc, 0, 0, "dims 0 1 0 3 2 1", "dims 1 2 0 0 2 1", "massign 0 1", "destroy 1", "rec 0 2 2 0 1")
        h("dbg", "gray16", alloc, 0, 0, "dims 0 2 4 3 2 1", "dims 1 1 1 5 0 1", "massign 0 1", "copy 2 0")
        # alignment recorded before a throwing allocation, then recreate(same dims, that alignment) returns early
        h("dbg", "rgb8", alloc, 2, 0, "dims 0 0 0 3 2 7", "rec 0 8 8 16 3", "rec 0 3 2 16 3")
        h("dbg", "gray16", alloc, 2, 0, "fill 0 0 0 3 3 7", "recf 0 8 8 4 32", "recf 0 3 3 4 32")
        # reuse branch + throwing element construction
        h("dbg", "elem", alloc, 0, 7, "fill 0 0 0 3 2 5", "rec 0 1 1 0 2")
        h("dbg", "elem", alloc, 0, 9, "fill 0 0 0 3 2 5", "recf 0 2 2 4 0", "destroy 0")
        # planar image of a non-trivial channel type: throw in the 2nd plane of a fill / copy / default construction (planar roll-backs), 1-D and padded rows
        h("dbg", "elemp", alloc, 0, 9, "fill 0 0 0 3 2 5", "copy 1 0", "destroy 0")
        h("dbg", "elemp", alloc, 0, 26, "fill 0 0 0 3 2 5", "copy 1 0", "destroy 0")
        h("dbg", "elemp", alloc, 0, 8, "dims 0 0 16 3 2 5", "copy 1 0", "destroy 0")
        h("dbg", "elemp", alloc, 0, 25, "fill 0 0 16 3 2 5", "fromview 1 0 0 0", "destroy 0")
        h("dbg", "elemp", alloc, 0, 22, "fill 0 0 0 3 2 5", "recf 0 2 2 4 0", "destroy 0")
        h("dbg", "elem", alloc, 0, 0, "dims 0 0 0 3 2 7", "dims 1 0 0 4 4 1", "massign 0 1", "massign 1 0")
        # swap: equal instances exchange everything; unequal instances: propagate_on_container_swap exchanges the allocators too, otherwise the
        # contract (BOOST_ASSERT(_alloc == img._alloc)) is violated by the caller and diagnosed in this debug build
        h("dbg", "rgb8", alloc, 0, 0, "dims 0 1 0 3 2 1", "dims 1 1 4 4 4 2", "swap 0 1", "destroy 0", "rec 1 5 5 0 1")
        h("dbg", "rgb8", alloc, 0, 0, "dims 0 1 0 3 2 1", "dims 1 2 4 4 4 2", "swap 0 1", "destroy 0", "destroy 1")
        h("dbg", "elem", alloc, 0, 0, "dims 0 2 0 3 2 1", "dflt 1 1 8", "swap 1 0", "write 1 0 0 3", "destroy 1")
        # converting copy constructor / converting assignment (interleaved <-> planar): same dimensions (copy_pixels across organisations), different
        # dimensions (temporary of the source's alignment and allocator + swap), writes to either side afterwards; then between unequal instances
        for org in ("rgb8", "rgb8p"):
            h("dbg", org, alloc, 0, 0, "dims 0 1 4 3 2 1", "ccopy 4 0", "write 4 1 1 9", "write 0 0 0 8", "dims 1 1 0 3 2 6", "cassign 4 1",
              "dims 2 1 8 5 3 2", "cassign 4 2", "write 2 0 0 7", "cassign 2 4", "destroy 4")
            h("dbg", org, alloc, 0, 0, "dims 0 2 0 3 2 1", "ccopy 4 0", "dims 5 1 0 3 2 4", "cassign 4 5", "cassign 5 4", "massign 4 5", "destroy 0")
        # self assignment / self move assignment / self swap; copy assignment with the same, then with other dimensions, writes in between (the allocation
        # fault variants of these histories make the temporary of operator= throw: the target must keep its old value -- C10_assign_strong_guarantee)
        for org in ("rgb8", "elem", "elemp", "gray1"):
            h("dbg", org, alloc, 0, 0, "dims 0 1 0 3 2 1", "assign 0 0", "massign 0 0", "swap 0 0", "dims 1 1 0 3 2 0", "assign 1 0", "write 1 0 0 1",
              "dims 2 1 2 4 4 1", "assign 1 2", "write 2 1 1 0", "assign 2 0")
        # reuse decision exactly at the boundary (same byte size, other shape), shrinking, growing, re-aligning
        for org in ORGS:
            v = 1
            h("dbg", org, alloc, 0, 0, "dims 0 0 0 3 2 %d" % v, "rec 0 2 3 0 1", "rec 0 6 1 0 0", "rec 0 1 6 0 1", "rec 0 1 1 0 0", "rec 0 3 2 0 1", "rec 0 3 3 0 1")
            h("dbg", org, alloc, 0, 0, "dims 0 0 4 5 3 %d" % v, "rec 0 5 3 8 1", "rec 0 5 3 2 0", "rec 0 2 2 32 1", "copy 1 0", "write 1 0 0 0", "swap 0 1", "massign 0 1")
            h("dbg", org, alloc, 0, 0, "fillprobe 0 0 0 9 2 1", "copy 1 0", "write 0 3 1 0", "assign 2 0")
            h("dbg", org, alloc, 0, 0, "fillprobe 0 0 1 3 3 0", "dflt 1 0 16", "move 2 0", "assign 1 2", "assign 0 1", "destroy 2")
            h("dbg", org, alloc, 0, 0, "dims 0 0 16 0 0 1", "dims 1 0 0 5 0 1", "copy 2 0", "assign 1 0", "massign 0 2", "rec 0 0 0 16 1", "rec 0 0 0 0 1")
    return H

# ------------------------------------------------------------------ random histories
def gen_history(r, mc, thorough):
    alloc = r.choice(ALLOCS)
    mode = "rel" if (alloc in ("sf00", "pmr") and r.chance(1, 4)) else "dbg"
    org = r.choice(ORGS)
    vmax = VMAX[org]
    policy = r.below(10)           # 0..4: every allocator tag 0; 5,6: one non-default tag; 7..9: random tags (unequal instances meet)
    t0 = r.range(1, 2)
    def tag(): return 0 if policy < 5 else (t0 if policy < 7 else r.below(3))
    occ, tags = {}, {}             # slot -> approximate (w,h); slot -> tag (approximate)
    nslots = 6 if org in PARTNER else 4
    ops = []
    nops = r.range(2, 16 if thorough else 8)
    def dim(): return r.choice(DIMS)
    def al(): return r.choice(ALIGNS)
    def v(): return r.below(vmax + 1)
    for _ in range(nops):
        empty = [s for s in range(nslots) if s not in occ]
        full = sorted(occ)
        side = lambda s: s < 4
        k = r.below(100)
        if not full or (empty and k < 30):
            s = r.choice(empty); kind = r.below(10)
            same = [x for x in full if side(x) == side(s)]
            other = [x for x in full if side(x) != side(s)]
            if kind < 1: ops.append("dflt %d %d %d" % (s, tag(), al())); occ[s] = (0, 0)
            elif kind < 4 or not full: ops.append("dims %d %d %d %d %d %d" % (s, tag(), al(), dim(), dim(), v())); occ[s] = 1
            elif kind < 6:
                if r.chance(1, 4): ops.append("fillprobe %d %d %d %d %d %d" % (s, tag(), al(), dim(), dim(), v()))
                else: ops.append("fill %d %d %d %d %d %d" % (s, tag(), al(), dim(), dim(), v()))
                occ[s] = 1
            elif kind < 7 and same and org != "elem": ops.append("fromview %d %d %d %d" % (s, tag(), al(), r.choice(same))); occ[s] = 1
            elif kind < 8 and same: ops.append("move %d %d" % (s, r.choice(same))); occ[s] = 1
            elif kind < 9 and other: ops.append("ccopy %d %d" % (s, r.choice(other))); occ[s] = 1
            elif same: ops.append("copy %d %d" % (s, r.choice(same))); occ[s] = 1
            else: ops.append("dims %d %d %d %d %d %d" % (s, tag(), al(), dim(), dim(), v())); occ[s] = 1
            tags[s] = None
            continue
        s = r.choice(full)
        same = [x for x in full if side(x) == side(s)]
        other = [x for x in full if side(x) != side(s)]
        if k < 45:
            kind = r.below(8)
            fillok = True
            if kind < 3 or (not fillok and kind < 5): ops.append("rec %d %d %d %d %d" % (s, dim(), dim(), al(), v()))
            elif kind < 5: ops.append("recf %d %d %d %d %d" % (s, dim(), dim(), v(), al()))
            elif kind < 7 or not fillok: ops.append("reca %d %d %d %d %d %d" % (s, dim(), dim(), al(), tag(), v()))
            else: ops.append("recfa %d %d %d %d %d %d" % (s, dim(), dim(), v(), al(), tag()))
        elif k < 55: ops.append("assign %d %d" % (s, r.choice(same)))
        elif k < 58 and other: ops.append("cassign %d %d" % (s, r.choice(other)))
        elif k < 72: ops.append("massign %d %d" % (s, r.choice(same)))
        # user level swap of unequal non-propagating instances is a contract violation (BOOST_ASSERT in swap): generated in debug builds only,
        # where it is an expected `assert:` observation that ends the history
        elif k < 76 and (alloc in POCS or alloc == "se" or policy < 7 or mode == "dbg"): ops.append("swap %d %d" % (s, r.choice(same)))
        elif k < 90: ops.append("write %d %d %d %d" % (s, r.below(8), r.below(8), v()))
        else: ops.append("destroy %d" % s); del occ[s]
    return "h %s %s %s 0 0 %s | %s" % (mode, org, alloc, mc, " | ".join(ops))

def with_fault(line, fa, fc):
    hd, rest = line.split(" | ", 1)
    w = hd.split(); w[4], w[5] = str(fa), str(fc)
    return " ".join(w) + " | " + rest

def fault_variants(ctx, base, model_obs, r):
    """re-run a history once per throw point: every allocation; for elem a selection (quick) / all (thorough) of the constructions"""
    out = []
    th = ctx.thorough()
    for line, obs in zip(base, model_obs):
        na = len(re.findall(r"\bA\d+:", obs))
        for k in range(1, na + 1): out.append(with_fault(line, k, 0))
        m = re.findall(r"c=(\d+)", obs)
        if m:
            nc = int(m[-1])
            if nc:
                pts = set(range(1, nc + 1)) if (th and nc <= 80) else {1, nc, max(1, nc // 2)} | {r.range(1, nc) for _ in range(12 if th else 3)}
                # the boundaries of every operation (first / last construction of each op) are the interesting throw points
                cs = [int(x) for x in m]
                for a, b in zip(cs, cs[1:]):
                    if b > a: pts |= {a + 1, b} if th or r.chance(1, 2) else {a + 1}
                for k in sorted(pts): out.append(with_fault(line, 0, k))
    return out

def nontrivial(line):
    hd, rest = line.split(" | ", 1)
    w = hd.split()
    ops = [o.split()[0] for o in rest.split(" | ")]
    return len(ops) >= 2 and (w[4] != "0" or w[5] != "0" or any(o in MUTATORS for o in ops))

ASSUME = [
    "allocators obey the allocator contract (allocate returns fresh storage; deallocate with the pointer, size and an equal allocator releases it); "
    "std::uninitialized_fill / uninitialized_copy roll back as the standard says (modelled, not verified)",
    "sizes do not overflow std::size_t (stated as explicit hypotheses in the theorems about the generated size formulas)",
    "user level swap() between images whose allocators are unequal and do not propagate on swap is outside the contract (BOOST_ASSERT in image::swap, as for standard containers): "
    "generated in assert-enabled builds only, where the assertion is the expected observation; not generated in NDEBUG builds",
    "faults: one injected failure per history (the k-th allocation or the k-th element construction); assignment of elements does not throw",
]

def degenerate_keeps_dims(ctx):
    """source-selected model variant: does image::allocate_ build a view of the requested dimensions when no byte is needed?"""
    try: text = open(os.path.join(ctx.include, "boost/gil/image.hpp")).read()
    except OSError: return False
    m = re.search(r"void allocate_\(point_t const& dimensions, std::false_type\)(.*?)_memory\s*=\s*_alloc\.allocate", text, re.S)
    return bool(m and "create_view" in m.group(1))

def move_assign_keeps_dims(ctx):
    """source-selected model variant: does move_assign(no_propagate), source without storage, build a view of the source's dimensions?"""
    try: text = open(os.path.join(ctx.include, "boost/gil/image.hpp")).read()
    except OSError: return False
    m = re.search(r"void move_assign\(image& img, no_propagate_allocators\)(.*?)\n  public:", text, re.S)
    return bool(m and re.search(r"create_view\(img\.dimensions\(\)", m.group(1)))

def compile_all(ctx, mc, elem_ok=True):
    defines = (["C10_ELEM_MASSIGN_COMPILES"] if mc else []) + ([] if elem_ok else ["C10_NO_ELEM"])
    def one(b):
        alloc, mode = b
        d = defines + ["C10_ALLOC=%d" % ALLOCS.index(alloc)] + (["NDEBUG"] if mode == "rel" else [])
        return b, vlib.compile_harness(ctx, "harness/C10/main.cpp", name="C10_%s_%s" % (alloc, mode), defines=d)
    with concurrent.futures.ThreadPoolExecutor(max_workers=min(len(BUILDS), ctx.jobs)) as ex:
        return dict(ex.map(one, BUILDS))

def run(ctx, ops=None):
    vlib.regen(ctx, C10_syms.NAMESPACE, C10_syms.SYMS)
    obligations, discharged = vlib.standard_proof_steps(ctx)
    # compile probe (an observation, DESIGN.md 9: template selection is observed, not proven)
    pb, perr = vlib.compile_harness(ctx, "harness/C10/probe_massign.cpp", name="C10_probe", sanitize=False, opt="-O0")
    dg = (1 if degenerate_keeps_dims(ctx) else 0) + (2 if move_assign_keeps_dims(ctx) else 0)
    ctx.cov["source_variant_degenerate_image_keeps_dimensions"] = bool(dg & 1)
    ctx.cov["source_variant_move_assign_takes_dimensions_of_storageless_source"] = bool(dg & 2)
    mc = "%d %d" % (1 if pb else 0, dg)          # the two tree flags of the history header: <mc> <dg>
    ctx.cov["probe_elem_move_assign_compiles"] = bool(pb)
    pe, _ = vlib.compile_harness(ctx, "harness/C10/probe_elem.cpp", name="C10_probe_elem", sanitize=False, opt="-O0")
    ctx.cov["probe_nontrivial_element_compiles"] = bool(pe)
    bins = compile_all(ctx, bool(pb), bool(pe))
    samples, distinct = [], 0
    bad = [(b, e) for b, (p, e) in bins.items() if p is None]
    if bad:
        for b, e in bad:
            ctx.broken.append(("harness", "compile %s/%s" % b, e[-1500:])); ctx.log("harness does not compile (%s/%s):\n%s" % (b[0], b[1], e[-1500:]))
    else:
        if ops is None:
            r = ctx.rng
            base = directed(mc) + [gen_history(r, mc, ctx.thorough()) for _ in range(5000 if ctx.thorough() else 400)]
            base = list(dict.fromkeys(base))
            mobs = vlib.run_driver(ctx, "drv_C10", "model", base)
            ops = base + fault_variants(ctx, base, mobs, r)
            ops = list(dict.fromkeys(ops))
        else:
            # replayed lines carry the mc flag of the tree they were recorded on: re-stamp with the current probe result
            ops = [re.sub(r"^(h \S+ \S+ \S+ \d+ \d+) \d+( \d+)?", r"\g<1> %s" % mc, o) for o in ops]
        groups = {}
        for o in ops:
            w = o.split()
            groups.setdefault((w[3], w[1]), []).append(o)
        dist = {}
        def work(item):
            (alloc, mode), lines = item
            return item, lines
        for (alloc, mode), lines in sorted(groups.items()):
            if (alloc, mode) not in bins:
                ctx.broken.append(("harness", "no build for %s/%s" % (alloc, mode), "")); continue
            impl, model = vlib.correspond(ctx, bins[(alloc, mode)][0], "drv_C10", lines, label="%s/%s" % (alloc, mode))
            dist["%s/%s" % (alloc, mode)] = len(lines)
            if len(samples) < 8:
                i = len(lines) // 2
                samples.append({"op": lines[i][:300], "impl": impl[i][:400], "model": model[i][:400]})
        distinct = len({o for o in ops if nontrivial(o)})
        ctx.cov["input_distribution"] = {
            "histories_per_build": dist,
            "per_org": {g: sum(1 for o in ops if o.split()[2] == g) for g in ORGS},
            "with_alloc_fault": sum(1 for o in ops if o.split()[4] != "0"),
            "with_ctor_fault": sum(1 for o in ops if o.split()[5] != "0"),
            "operations": sum(o.count("|") for o in ops),
        }
    return vlib.finish(ctx, "proof", obligations, discharged,
        rule="one op line = one history (<= 8 ops quick / 16 thorough, 4+2 slots) over {rgb8, rgb8 planar, gray16, rgb565 packed, gray1 bit-aligned, counting element} x "
             "{stateless, stateful x propagate_on_move x propagate_on_swap, pmr} allocators, debug and NDEBUG builds; every history is re-run once per allocation "
             "throw point and (element images) per selected construction throw point; directed boundary histories first; "
             "non-trivial = at least two operations and (a mutating operation assign/move-assign/swap/recreate or an injected fault); distinct lines counted",
        samples=samples, distinct_nontrivial=distinct, assumptions=ASSUME, trusted_base=vlib.TRUSTED_BASE,
        extra={"input_distribution": ctx.cov.get("input_distribution"), "probe_elem_move_assign_compiles": ctx.cov.get("probe_elem_move_assign_compiles"),
               "builds": ["%s/%s" % b for b in BUILDS]},
        exhaustive=False)

def replay(ctx, path):
    rp = json.load(open(path))
    ops = rp.get("op_lines") or []
    if not ops: return run(ctx)
    return run(ctx, ops=ops)
