"""translator whitelist for C12: the bmp row pitch, computed independently in the writer (spn) and in the reader (_pitch)"""
from cxx2lean import Sym
RD = "boost/gil/extension/io/bmp/detail/read.hpp"
WR = "boost/gil/extension/io/bmp/detail/write.hpp"
SYMS = [
    Sym(WR, r"std::size_t spn = ([^;]*);", "bmp_writer_spn", [("w", "std::ptrdiff_t"), ("nch", "std::size_t")], ret="std::size_t", expr=True,
        subst=[(r"view\.width\(\)", "w"), (r"num_channels< View >::value", "nch")],
        doc="bmp writer::write: spn, bytes per stored row (view.width() and num_channels as parameters)"),
    Sym(RD, r"_pitch = (static_cast<long>\( this->_info\._width \* [^;]*);", "bmp_reader_pitch_raw", [("width", "int32_t"), ("bpp", "uint16_t")], ret="std::size_t", expr=True,
        subst=[(r"this->_info\._width", "width"), (r"this->_info\._bits_per_pixel", "bpp")],
        doc="bmp reader::apply: _pitch before rounding, for bits_per_pixel >= 8"),
    Sym(RD, r"_pitch = (\(_pitch \+ 3\) & ~3);", "bmp_reader_pitch_round", [("pitch", "std::size_t")], ret="std::size_t", expr=True,
        subst=[(r"\b_pitch\b", "pitch")], doc="bmp reader::apply: the pitch rounded up to a multiple of 4"),
]
NAMESPACE = "GilVerif.Gen.C12"
