"""translator whitelist for C01 (allocation size, row size, alignment, bit-aligned channel byte count)"""
from cxx2lean import Sym
IMG = "boost/gil/image.hpp"
UT = "boost/gil/utilities.hpp"
CH = "boost/gil/channel.hpp"
SZ = "std::size_t"

ROW = [(r"memunit_step\(typename view_t::x_iterator\(\)\)", "mstep"),
       (r"byte_to_memunit<\s*typename view_t::x_iterator\s*>::value", "b2m"), (r"byte_to_memunit<\s*x_iterator\s*>::value", "b2m")]

def total(lean, planar):
    return Sym(IMG, r"std::size_t total_allocated_size_in_bytes\(point_t const& dimensions\) const", lean,
               [("dim_x", "std::ptrdiff_t"), ("dim_y", "std::ptrdiff_t"), ("mstep", "std::ptrdiff_t"), ("b2m", "int"), ("_align_in_bytes", SZ), ("channels", SZ)],
               ret=SZ, calls={"get_row_size_in_memunits": "row_size_in_memunits"},
               subst=[(r"using x_iterator = [^;]*;", ""), (r"constexpr std::size_t _channels_in_image =[\s\S]*?::type::value;", ""),
                      (r"is_planar_impl\(\s*(get_row_size_in_memunits\(dimensions\.x\) \* dimensions\.y),\s*_channels_in_image,\s*std::integral_constant<bool, IsPlanar>\(\)\)",
                       r"((\1) * channels)" if planar else r"(\1)"),
                      (r"get_row_size_in_memunits\(dimensions\.x\)", "get_row_size_in_memunits(dim_x, mstep, b2m, _align_in_bytes)"),
                      (r"dimensions\.y", "dim_y")] + ROW,
               doc="total_allocated_size_in_bytes for IsPlanar = %s (is_planar_impl inlined)" % ("true" if planar else "false"))

SYMS = [
    Sym(UT, r"inline T align\(T val, std::size_t alignment\)", "align", [("val", SZ), ("alignment", SZ)], ret=SZ),
    Sym(IMG, r"std::size_t get_row_size_in_memunits\(x_coord_t width\) const", "row_size_in_memunits",
        [("width", "std::ptrdiff_t"), ("mstep", "std::ptrdiff_t"), ("b2m", "int"), ("_align_in_bytes", SZ)], ret=SZ,
        calls={"align": "align"}, subst=ROW),
    total("total_bytes_interleaved", False), total("total_bytes_planar", True),
    # packed_dynamic_channel_reference<BitField, NumBits, true>::data_size(): bytes copied by get()/set_unsafe()
    Sym(CH, r"\nclass packed_dynamic_channel_reference<BitField,NumBits,true>.*?auto data_size\(\) const -> std::size_t", "chan_data_size",
        [("_first_bit", "unsigned"), ("NumBits", "int"), ("field_bytes", SZ)], ret=SZ,
        subst=[(r"sizeof\(BitField\)", "field_bytes"), (r"std::size_t const n", "std::size_t n")],
        doc="packed_dynamic_channel_reference (mutable): number of bytes get()/set_unsafe() copy from the data pointer"),
    Sym(CH, r"\nclass packed_dynamic_channel_reference<BitField,NumBits,false>.*?auto data_size\(\) const -> std::size_t", "chan_data_size_const",
        [("_first_bit", "unsigned"), ("NumBits", "int"), ("field_bytes", SZ)], ret=SZ,
        subst=[(r"sizeof\(BitField\)", "field_bytes"), (r"std::size_t const n", "std::size_t n")],
        doc="packed_dynamic_channel_reference (const): number of bytes get() copies from the data pointer"),
]
# ---- placement: allocate_ / create_view (where the first pixel and the planes are put) and the branch taken by recreate
PLACE_SUB = [
    (r"\(\s*unsigned char\s*\*\s*\)", ""), (r"\(\s*std::size_t\s*\)\s*_memory", "_memory"), (r"unsigned char\s*\*\s*tmp\s*=", "tmp ="),
    (r"typename view_t::x_iterator first;", ""),
    (r"total_allocated_size_in_bytes\(\s*(?:dims|dimensions)\s*\)", "total_allocated_size_in_bytes(dim_x, dim_y, mstep, b2m, _align_in_bytes, channels)"),
    (r"get_row_size_in_memunits\(\s*(?:dims|dimensions)\.x\s*\)", "get_row_size_in_memunits(dim_x, mstep, b2m, _align_in_bytes)"),
    # planar: every plane pointer starts at tmp and is advanced by an expression in the plane index i
    (r"for \(std::size_t i = 0; i < num_channels<view_t>::value; \+\+i\)\s*\{\s*dynamic_at_c\(first, i\) = \(typename channel_type<view_t>::type\*\)tmp;"
     r"\s*memunit_advance\(dynamic_at_c\(first, i\), (.*?)\);\s*\}", r"plane_off = \1;"),
    # _view = view_t(dims, locator(first pixel, row size)): dimensions and row size of the new view
    (r"_view\s*=\s*view_t\(\s*(dims|dimensions)\s*,\s*typename view_t::locator\(\s*first\s*,\s*(.*?)\s*\)\s*\);", r"view_w = \1.x; view_h = \1.y; loc_row = \2;"),
    (r"_view\s*=\s*view_t\(\s*(dims|dimensions)\s*,\s*typename view_t::locator\(\s*typename view_t::x_iterator\(\s*tmp\s*\)\s*,\s*(.*?)\s*\)\s*\)\s*;",
     r"view_w = \1.x; view_h = \1.y; loc_row = \2;"),
    (r"_memory\s*=\s*_alloc\.allocate\(\s*_allocated_bytes\s*\);", "_memory = alloc_result;"),
    (r"(?:dims|dimensions)\.x", "dim_x"), (r"(?:dims|dimensions)\.y", "dim_y"),
]
GEO = [("dim_x", "std::ptrdiff_t"), ("dim_y", "std::ptrdiff_t"), ("mstep", "std::ptrdiff_t"), ("b2m", "int"), ("_align_in_bytes", SZ), ("channels", SZ)]

def place(anchor, lean, planar, alloc):
    params = GEO + [("_memory", SZ)] + ([("alloc_result", SZ), ("_allocated_bytes", SZ)] if alloc else []) + \
             ([("i", SZ), ("plane_off", "std::ptrdiff_t")] if planar else []) + [("tmp", SZ), ("loc_row", "std::ptrdiff_t"), ("view_w", "std::ptrdiff_t"), ("view_h", "std::ptrdiff_t")]
    outs = (["_allocated_bytes", "_memory"] if alloc else []) + ["tmp"] + (["plane_off"] if planar else []) + ["loc_row", "view_w", "view_h"]
    # since 42a1d3b allocate_ calls create_view(dimensions, tag) when no storage is needed: the callee's body is inlined textually
    inl = [(r"create_view\(dimensions, std::%s_type\(\)\);" % ("true" if planar else "false"),
            r"void create_view\(point_t const& dims, std::%s_type\)" % ("true" if planar else "false"), 0)] if alloc else []
    return Sym(IMG, anchor, lean, params, outputs=outs, subst=PLACE_SUB, inline=inl,
               calls={"get_row_size_in_memunits": "row_size_in_memunits", "align": "align",
                      "total_allocated_size_in_bytes": "total_bytes_planar" if planar else "total_bytes_interleaved"},
               doc="%s, IsPlanar = %s: %s first pixel address `tmp`%s, the row size handed to the locator and the dimensions of _view" % (
                   "allocate_" if alloc else "create_view", "true" if planar else "false",
                   "bytes requested, allocator result kept in _memory, " if alloc else "", ", offset of plane i from it" if planar else ""))

def recreate(anchor, lean, planar, with_alloc):
    return Sym(IMG, anchor, lean,
               [("dim_x", "std::ptrdiff_t"), ("dim_y", "std::ptrdiff_t"), ("alignment", SZ), ("view_w", "std::ptrdiff_t"), ("view_h", "std::ptrdiff_t"),
                ("mstep", "std::ptrdiff_t"), ("b2m", "int"), ("_align_in_bytes", SZ), ("channels", SZ), ("_allocated_bytes", SZ), ("alloc_eq", "bool"), ("branch", "int")],
               outputs=["_align_in_bytes", "branch"],
               subst=[(r"dims == _view\.dimensions\(\)", "(dim_x == view_w && dim_y == view_h)"), (r"alloc_in == _alloc", "alloc_eq"),
                      (r"\)\s*return;", ") { branch = 0; return; }"),
                      (r"destruct_pixels\(_view\);\s*create_view\(dims, (?:typename )?std::integral_constant<bool, IsPlanar>\(\)\);\s*(?:default_construct_pixels\(_view\)|uninitialized_fill_pixels\(_view, p_in\));", "branch = 1;"),
                      (r"image tmp\(dims, (?:p_in, )?alignment(?:, alloc_in)?\);\s*swap\(tmp\);", "branch = 2;"),
                      (r"total_allocated_size_in_bytes\(dims\)", "total_allocated_size_in_bytes(dim_x, dim_y, mstep, b2m, _align_in_bytes, channels)")],
               calls={"total_allocated_size_in_bytes": "total_bytes_planar" if planar else "total_bytes_interleaved"},
               doc="image::%s, IsPlanar = %s: new _align_in_bytes and the branch taken -- 0 nothing to do, 1 create_view over the old storage, 2 new image + swap" % (
                   anchor.replace("\\", "")[5:], "true" if planar else "false"))

REC = [(r"void recreate\(point_t const& dims, std::size_t alignment = 0\)", "dims"),
       (r"void recreate\(point_t const& dims, const Pixel& p_in, std::size_t alignment = 0\)", "dims_fill"),
       (r"void recreate\(point_t const& dims, std::size_t alignment, const Alloc alloc_in\)", "dims_alloc"),
       (r"void recreate\(point_t const& dims, const Pixel& p_in, std::size_t alignment, const Alloc alloc_in\)", "dims_fill_alloc")]
SYMS += [
    place(r"void allocate_\(point_t const& dimensions, std::false_type\)", "allocate_interleaved", False, True),
    place(r"void allocate_\(point_t const& dimensions, std::true_type\)", "allocate_planar", True, True),
    place(r"void create_view\(point_t const& dims, std::false_type\)", "create_view_interleaved", False, False),
    place(r"void create_view\(point_t const& dims, std::true_type\)", "create_view_planar", True, False),
]
for planar in (False, True):
    for anchor, tag in REC:
        SYMS.append(recreate(anchor, "recreate_%s_%s" % (tag, "planar" if planar else "interleaved"), planar, "alloc" in tag))
# ---- copy construction / copy assignment: which dimensions and alignment the copy gets, and whether assignment keeps the storage
PD = "std::ptrdiff_t"
SYMS += [
    Sym(IMG, r"image& operator=\(const image& img\)", "assign_branch", [("w", PD), ("h", PD), ("iw", PD), ("ih", PD), ("branch", "int")], outputs=["branch"],
        subst=[(r"dimensions\(\) == img\.dimensions\(\)", "(w == iw && h == ih)"), (r"copy_pixels\(img\._view,_view\);", "branch = 0;"),
               (r"image tmp\(img\);\s*swap\(tmp\);", "branch = 1;"), (r"return \*this;", "")],
        doc="image::operator=(const image&): 0 = copy_pixels into the existing storage, 1 = copy-construct a temporary and swap"),
    Sym(IMG, r"image\(const image& img\) : _memory\(nullptr\), _align_in_bytes\((.*?)\), _alloc\(img\._alloc\)", "copy_ctor_align", [("img_align", SZ)], ret=SZ, expr=True,
        subst=[(r"img\._align_in_bytes", "img_align")], doc="copy constructor: the alignment the copy is laid out with"),
    Sym(IMG, r"image\(const image& img\) : _memory\(nullptr\)[^{]*", "copy_ctor_dims", [("iw", PD), ("ih", PD), ("dw", PD), ("dh", PD)], outputs=["dw", "dh"],
        subst=[(r"allocate_and_copy\(img\.dimensions\(\),img\._view\);", "dw = iw; dh = ih;")], doc="copy constructor: dimensions handed to allocate_and_copy"),
]
NAMESPACE = "GilVerif.Gen.C01"
