"""translator whitelist for C01 (allocation size, row size, alignment, bit-aligned channel byte count)"""
from cxx2lean import Sym
IMG = "boost/gil/image.hpp"
UT = "boost/gil/utilities.hpp"
CH = "boost/gil/channel.hpp"
SZ = "std::size_t"

ROW = [(r"memunit_step\(typename view_t::x_iterator\(\)\)", "mstep"),
       (r"byte_to_memunit<\s*typename view_t::x_iterator\s*>::value", "b2m"), (r"byte_to_memunit<\s*x_iterator\s*>::value", "b2m")]

def total(lean, planar):
    return Sym(IMG, r"std::size_t total_allocated_size_in_bytes\(point_t const& dimensions\) const", lean,
               [("dim_x", "std::ptrdiff_t"), ("dim_y", "std::ptrdiff_t"), ("mstep", "std::ptrdiff_t"), ("b2m", "int"), ("_align_in_bytes", SZ), ("channels", SZ)],
               ret=SZ, calls={"get_row_size_in_memunits": "row_size_in_memunits"},
               subst=[(r"using x_iterator = [^;]*;", ""), (r"constexpr std::size_t _channels_in_image =[\s\S]*?::type::value;", ""),
                      (r"is_planar_impl\(\s*(get_row_size_in_memunits\(dimensions\.x\) \* dimensions\.y),\s*_channels_in_image,\s*std::integral_constant<bool, IsPlanar>\(\)\)",
                       r"((\1) * channels)" if planar else r"(\1)"),
                      (r"get_row_size_in_memunits\(dimensions\.x\)", "get_row_size_in_memunits(dim_x, mstep, b2m, _align_in_bytes)"),
                      (r"dimensions\.y", "dim_y")] + ROW,
               doc="total_allocated_size_in_bytes for IsPlanar = %s (is_planar_impl inlined)" % ("true" if planar else "false"))

SYMS = [
    Sym(UT, r"inline T align\(T val, std::size_t alignment\)", "align", [("val", SZ), ("alignment", SZ)], ret=SZ),
    Sym(IMG, r"std::size_t get_row_size_in_memunits\(x_coord_t width\) const", "row_size_in_memunits",
        [("width", "std::ptrdiff_t"), ("mstep", "std::ptrdiff_t"), ("b2m", "int"), ("_align_in_bytes", SZ)], ret=SZ,
        calls={"align": "align"}, subst=ROW),
    total("total_bytes_interleaved", False), total("total_bytes_planar", True),
    # packed_dynamic_channel_reference<BitField, NumBits, true>::data_size(): bytes copied by get()/set_unsafe()
    Sym(CH, r"\nclass packed_dynamic_channel_reference<BitField,NumBits,true>.*?auto data_size\(\) const -> std::size_t", "chan_data_size",
        [("_first_bit", "unsigned"), ("NumBits", "int"), ("field_bytes", SZ)], ret=SZ,
        subst=[(r"sizeof\(BitField\)", "field_bytes"), (r"std::size_t const n", "std::size_t n")],
        doc="packed_dynamic_channel_reference (mutable): number of bytes get()/set_unsafe() copy from the data pointer"),
    Sym(CH, r"\nclass packed_dynamic_channel_reference<BitField,NumBits,false>.*?auto data_size\(\) const -> std::size_t", "chan_data_size_const",
        [("_first_bit", "unsigned"), ("NumBits", "int"), ("field_bytes", SZ)], ret=SZ,
        subst=[(r"sizeof\(BitField\)", "field_bytes"), (r"std::size_t const n", "std::size_t n")],
        doc="packed_dynamic_channel_reference (const): number of bytes get() copies from the data pointer"),
]
NAMESPACE = "GilVerif.Gen.C01"
