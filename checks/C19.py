"""C19 -- histograms conserve mass and bin exactly the pixels that were counted (DESIGN.md section 5, C19)"""
import json, concurrent.futures
import vlib, C19_syms

VT = {"g8": ("u8", 1), "g8s": ("i8", 1), "g16": ("u16", 1), "g16s": ("i16", 1), "d2_8": ("u8", 2),
      "rgb8": ("u8", 3), "rgb8s": ("i8", 3), "rgb16": ("u16", 3), "rgba8": ("u8", 4)}
RANGE = {"u8": (0, 255), "i8": (-128, 127), "u16": (0, 65535), "i16": (-32768, 32767)}
SELS = {1: ["all", "0"], 2: ["all", "1", "10"], 3: ["all", "0", "1", "20"], 4: ["all", "3", "12"]}
AXES = {2: ["0", "1"], 3: ["0", "2", "02", "21"], 4: ["3", "03", "012"]}
RAXES = {2: ["0", "1"], 3: ["0", "2", "02"], 4: ["3", "03"]}
# translation units (compiled in parallel): (op kinds, defines); fh / cn / ns are split into gray and multi-channel halves
GRAY = ("g8", "g8s", "g16", "g16s")
TUS = {"A_G": (("fh", "hk"), ("PT_A", "HALF_G")), "A_M": (("fh",), ("PT_A", "HALF_M")), "B": (("cu", "no"), ("PT_B",)),
       "D_G": (("cn",), ("PT_D", "HALF_G")), "D_M": (("cn",), ("PT_D", "HALF_M")), "E_G": (("ns",), ("PT_E", "HALF_G")), "E_M": (("ns",), ("PT_E", "HALF_M")),
       "C": (("sa", "sr", "st", "sv"), ("PT_C",)), "F": (("mk", "kc"), ("PT_F",))}
MKSEL = {"g8s": ["all"], "g16": ["all"], "d2_8": ["all", "10"], "rgb8": ["all", "20", "1"]}

def tu_of(op):
    w = op.split(None, 2); k = w[0]
    if k in ("fh", "hk"): return "A_G" if (k == "hk" or w[1] in GRAY) else "A_M"
    if k in ("cu", "no"): return "B"
    if k == "cn": return "D_G" if w[1] in GRAY else "D_M"
    if k == "ns": return "E_G" if w[1] in GRAY else "E_M"
    if k in ("mk", "kc"): return "F"
    return "C"

def pixels(r, ch, n, style):
    lo, hi = RANGE[ch]
    if style == "small": a = 0 if lo == 0 else -6; return [r.range(a, a + 12) for _ in range(n)]
    if style == "edge": return [r.choice([lo, lo + 1, hi - 1, hi, 0, 1]) for _ in range(n)]
    if style == "const": v = r.range(lo, hi); return [v] * n
    if style == "neg": return [r.range(-12, -1) if lo < 0 else r.range(1, 12) for _ in range(n)]
    return [r.range(lo, hi) for _ in range(n)]

def planes(r, vt, n, style=None):
    ch, nc = VT[vt]
    st = style or r.choice(["small", "small", "small", "edge", "rand", "const"])
    return " | ".join(" ".join(map(str, pixels(r, ch, n, st))) for _ in range(nc))

def nsel(vt, sel): return VT[vt][1] if sel == "all" else len(sel)

def op_fh(r, vt, th, op="fh"):
    ch, nc = VT[vt]; signed = ch in ("i8", "i16")
    sel = r.choice(SELS[nc]) if op == "fh" else "all"
    k = nsel(vt, sel)
    bw = r.range(1, 8 if th else 4)
    acc, sparse, am, sl = r.below(2), (0 if (k == 1 and r.chance(1, 3)) else 1), r.below(2), r.below(2)
    w, h = r.range(0, 6), r.range(0, 6); n = w * h
    base = -8 if signed else 0
    if not sparse:                       # dense pre-fill walks [lower, upper]: keep it small and ordered (lower <= upper is its contract)
        lo = [r.range(base, 10)]; hi = [lo[0] + r.range(0, 12)]
    else:
        lo = [r.range(base, 8) for _ in range(k)]; hi = [r.range(base, 20) for _ in range(k)]
        if r.chance(3, 4): hi = [max(a, b) for a, b in zip(lo, hi)]
    if op == "hk": lo = [max(0, lo[0])]; hi = [max(lo[0], min(255, hi[0]))]
    mask = " ".join(str(r.below(2)) for _ in range(n))
    style = r.choice(["small", "small", "small", "edge", "rand"])
    return "%s %s %s %d %d %d %d %d %d %d | %s | %s | %s | %s | %s" % (op, vt, sel, bw, acc, sparse, am, sl, w, h, " ".join(map(str, lo)), " ".join(map(str, hi)),
                                                                  mask, planes(r, vt, n, style), planes(r, vt, n, style))

def pow2_if_signed(r, vt, th):
    """bin width for the non-`fh` ops (the name dates from before fix 1570f66, when signed views needed powers of two)"""
    return r.range(1, 8 if th else 4)

def gen_ops(ctx):
    r, th = ctx.rng, ctx.thorough()
    ops = []
    # deterministic witnesses first
    ops.append("fh g8 all 1 1 0 0 0 3 1 | 0 | 8 | 1 1 1 | 1 2 3 | 5 5 6")              # accumulate + dense (witness of a fixed finding)
    ops.append("fh g8s all 3 0 1 0 0 3 1 | -128 | 127 | 1 1 1 | 1 2 3 | -1 -2 -3")      # signed, bin width 3
    for vt in VT:
        for _ in range(900 if th else 260): ops.append(op_fh(r, vt, th))
    for _ in range(600 if th else 150): ops.append(op_fh(r, "g8", th, op="hk"))
    for vt in VT:
        nc = VT[vt][1]
        for _ in range(250 if th else 70):
            w, h = r.range(0, 6), r.range(0, 6)
            ops.append("cu %s %s %d %d %d | %s" % (vt, r.choice(SELS[nc]), pow2_if_signed(r, vt, th), w, h, planes(r, vt, w * h)))
        for _ in range(120 if th else 35):
            w, h = r.range(0, 6), r.range(0, 6)
            ops.append("no %s %s %d %d %d | %s" % (vt, r.choice(SELS[nc]), pow2_if_signed(r, vt, th), w, h, planes(r, vt, w * h)))
        if nc >= 2:
            for _ in range(250 if th else 70):
                w, h = r.range(0, 6), r.range(0, 6)
                ops.append("sa %s %s %d %d %d | %s" % (vt, r.choice(AXES[nc]), pow2_if_signed(r, vt, th), w, h, planes(r, vt, w * h, "small")))
            for _ in range(250 if th else 70):
                w, h = r.range(0, 6), r.range(0, 6); lo = r.range(-4, 8); hi = lo + r.range(-1, 8)
                ops.append("sr %s %s %d %d %d %d %d | %s" % (vt, r.choice(RAXES[nc]), pow2_if_signed(r, vt, th), w, h, lo, hi, planes(r, vt, w * h, "small")))
    # cumulative histograms of FRACTIONAL bins (quarter weights: exact; normalize(): quantised to 2^-20), 1-D and n-D
    ops.append("cn rgb8 20 1 n 2 2 | 1 2 1 2 | 0 0 0 0 | 3 3 4 4")
    ops.append("cn rgb8 20 1 q 2 2 | 1 2 1 2 | 0 0 0 0 | 3 3 4 4")
    for vt in VT:
        nc = VT[vt][1]
        for _ in range(200 if th else 60):
            w, h = r.range(0, 6), r.range(0, 6)
            ops.append("cn %s %s %d %s %d %d | %s" % (vt, r.choice(SELS[nc]), pow2_if_signed(r, vt, th), r.choice("qn"), w, h, planes(r, vt, w * h, "small")))
    # multi-step sequences on fractional bins: normalize -> sum(), normalize twice, normalize -> accumulate -> normalize, quarter weights
    ops.append("ns g8 all 1 nn 3 1 | 5 5 6 | 1 1 1")
    ops.append("ns rgb8 20 1 na 2 2 | 1 2 1 2 | 0 0 0 0 | 3 3 4 4 | 1 2 2 2 | 0 0 0 0 | 3 3 4 5")
    for vt in VT:
        nc = VT[vt][1]
        for _ in range(160 if th else 50):
            w, h = r.range(0, 6), r.range(0, 6)
            ops.append("ns %s %s %d %s %d %d | %s | %s" % (vt, r.choice(SELS[nc]), pow2_if_signed(r, vt, th), r.choice(["s", "nn", "na", "qs", "qn"]), w, h,
                                                       planes(r, vt, w * h, "small"), planes(r, vt, w * h, "small")))
    # std::vector two-step sequences: first fill (or a caller-prepared vector), then an ACCUMULATING fill, across channel depths
    ops.append("sv g8 g16 3 3 0 | | 1 2 3 4 5 6 7 8 9 | 1 2 3 400 500 600 7 8 9")
    ops.append("sv - g8 2 2 4 | 3 0 2 1 | 0 0 0 0 | 1 1 3 200")
    ops.append("sv g16 g8 3 1 0 | | 5 600 6 | 5 6 7")                                   # witness of the fixed finding vector-accumulate-shrinks
    for _ in range(300 if th else 90):
        vt1, vt2 = r.choice(["g8", "g16", "-"]), r.choice(["g8", "g16"])
        w, h = r.range(0, 5), r.range(0, 5); n = w * h
        pre = r.choice([0, 0, 3, 7, 256, 300]) if vt1 == "-" else r.choice([0, 0, 5])
        init = " ".join(str(r.below(4)) for _ in range(pre))
        def pl(vt): return " ".join(map(str, pixels(r, "u16" if vt == "g16" else "u8", n, r.choice(["small", "edge", "rand"]))))
        ops.append("sv %s %s %d %d %d | %s | %s | %s" % (vt1, vt2, w, h, pre, init, pl(vt1 if vt1 != "-" else "g8"), pl(vt2)))
    # query members of the histogram class: min_key / max_key / sorted_keys / nearest_key / equals / key_from_pixel
    ops.append("mk rgb8 20 2 2 2 | 1 1 0 0 5 5 | 1 2 1 7 | 0 0 0 0 | 3 3 4 9 | 1 2 2 2 | 0 0 0 0 | 3 3 4 5")
    ops.append("mk g8s all 3 3 1 | -1 0 9 | -4 5 -9 | 5 -4 -9")
    ops.append("mk d2_8 all 1 2 1 | 1 20 | 2 1 | 3 5 | 1 2 | 5 3")           # min_key (1,5) is not a component-wise bound of (2,3); B = A permuted
    ops.append("mk g16 all 1 0 0 | 3 | |")
    ops.append("mk g16 all 1 2 1 | 4 | 1 2 | 5 6")                             # equals is one-sided: {1,2,5,6}.equals({1,2}) answers 1 (not judged)
    for vt in MKSEL:
        ch, nc = VT[vt]
        for _ in range(400 if th else 110):
            sel = r.choice(MKSEL[vt]); k = nsel(vt, sel)
            w, h = r.range(0, 5), r.range(0, 5); n = w * h
            bw = r.range(1, 8 if th else 4)
            style = r.choice(["small", "small", "neg", "edge"])     # neg: every key below the default key (0,...)
            pa = [pixels(r, ch, n, style) for _ in range(nc)]
            mode = r.below(5)
            if mode <= 1 and n > 0:                      # B = A with its pixels permuted: equal histograms, other insertion order
                idx = list(range(n))
                for i in range(n - 1, 0, -1):
                    j = r.range(0, i); idx[i], idx[j] = idx[j], idx[i]
                pb = [[pl[i] for i in idx] for pl in pa]
            elif mode == 2 and n > 1:                    # B = A with one pixel replaced by a copy of another: sub-histogram or changed counts
                pb = [list(pl) for pl in pa]; i, j = r.range(0, n - 1), r.range(0, n - 1)
                for pl in pb: pl[i] = pl[j]
            else:
                pb = [pixels(r, ch, n, style) for _ in range(nc)]
            lo = -6 if ch in ("i8", "i16") else 0
            probes = []
            for _ in range(r.range(0, 4)):
                if n > 0 and r.chance(1, 3):             # near an existing key
                    i = r.range(0, n - 1); px = [pl[i] for pl in pa]
                    src = px if sel == "all" else [px[int(c)] for c in sel]
                    probes += [int(v / bw) + r.range(-1, 1) for v in src]
                else:
                    probes += [r.range(lo - 2, lo + 16) for _ in range(k)]
            ops.append("mk %s %s %d %d %d | %s | %s | %s" % (vt, sel, bw, w, h, " ".join(map(str, probes)),
                       " | ".join(" ".join(map(str, pl)) for pl in pa), " | ".join(" ".join(map(str, pl)) for pl in pb)))
    EDGE = [0, 1, -1, 255, 256, 257, -128, -129, 32767, 32768, -32768, -32769, 65535, 65536, 2147483647, 2147483648, -2147483648, -2147483649, 4294967296, 4294967297]
    ops.append("kc -1 300 -32768 | 256 40000 4294967297")
    for _ in range(300 if th else 80):
        c = [r.choice([r.range(-32768, 32767), r.choice([-32768, -129, -128, -1, 0, 255, 256, 32767])]) for _ in range(3)]
        t = [r.choice([r.choice(EDGE), r.range(-(1 << 40), 1 << 40), r.range(-70000, 70000)]) for _ in range(3)]
        ops.append("kc %d %d %d | %d %d %d" % (c[0], c[1], c[2], t[0], t[1], t[2]))
    for vt in ("g8", "g16"):
        for _ in range(200 if th else 60):
            w, h = r.range(0, 6), r.range(0, 6)
            ops.append("st %s %d %d | %s" % (vt, w, h, planes(r, vt, w * h)))
    return ops

def nontrivial(op):
    w = op.split(None, 11)
    if w[0] in ("fh", "hk"): return int(w[8]) * int(w[9]) > 1
    if w[0] in ("cu", "no", "sa", "sr"): return int(w[4]) * int(w[5]) > 1
    if w[0] in ("cn", "ns"): return int(w[5]) * int(w[6]) > 1
    if w[0] == "sv": return int(w[3]) * int(w[4]) > 1
    if w[0] == "st": return int(w[2]) * int(w[3]) > 1
    if w[0] == "mk": return int(w[4]) * int(w[5]) > 1
    if w[0] == "kc": return True
    return False

ASSUME = [
    "bin counts are stored as double in the C++ and as Nat in the model: exact below 2^53 counts",
    "std::unordered_map is modelled by an association list with operator[] / operator[]++ / assignment; iteration order is never observed (bins are printed sorted)",
    "key type of the sparse histogram: int on every axis (histogram<int,...>), plus histogram<unsigned char> for the dense pre-fill on gray8; other key types are outside the run",
    "dense pre-fill: lower <= upper (its termination contract, theorem C19_prefill_terminates)",
    "normalize is judged with tolerance (sum within 1e-12 of 1, bins within 1e-15 of count/total): partial (float); the exact-arithmetic statement is theorem C19_normalize_sum_one",
    "range sub-histogram over several axes uses std::tuple's lexicographic <= as coded; for one axis this is the interval test",
    "std::array filler is run only for gray8 with N = 256 (scale factor 1.0f); other N involve float rounding and are not covered",
]

def compile_all(ctx):
    bins, errs = {}, []
    with concurrent.futures.ThreadPoolExecutor(max_workers=9) as ex:
        futs = {d: ex.submit(vlib.compile_harness, ctx, "harness/C19/main.cpp", "C19_" + d, (), (), True, "-O1", TUS[d][1]) for d in TUS}
        for d, f in futs.items():
            b, e = f.result()
            if b is None: errs.append((d, e))
            else: bins[d] = b
    return bins, errs

def run(ctx, ops=None):
    vlib.regen(ctx, C19_syms.NAMESPACE, C19_syms.SYMS)
    obligations, discharged = vlib.standard_proof_steps(ctx)
    bins, errs = compile_all(ctx)
    for d, e in errs:
        ctx.broken.append(("harness", "compile " + d, e[-1500:])); ctx.log("harness %s does not compile:\n%s" % (d, e[-1500:]))
    ops = ops or gen_ops(ctx)
    samples, kinds = [], {}
    for d in sorted(TUS):
        g = [o for o in ops if tu_of(o) == d]
        if not g or d not in bins: continue
        impl, model = vlib.correspond(ctx, bins[d], "drv_C19", g, label=d)
        for i in (0, len(g) // 2, len(g) - 1):
            samples.append({"op": g[i][:160], "impl": impl[i][:160], "model": model[i][:160]})
    for o in ops:
        w = o.split(None, 3); k = w[0] + ":" + w[1]; kinds[k] = kinds.get(k, 0) + 1
    distinct = len({o for o in ops if nontrivial(o)})
    return vlib.finish(ctx, "proof", obligations, discharged,
        rule="op lines: fill_histogram on 9 view types (1-4 channels, uint8/int8/uint16/int16) x channel selections x bin widths x accumulate/sparse-or-dense/mask/limits x shapes 0..6 "
             "(random structured, two consecutive fills per op); cumulative, normalize, sub_histogram (axes, range) and the std vector/map/array fillers on the same families; "
             "non-trivial = more than one pixel; distinct op lines counted",
        samples=samples, distinct_nontrivial=distinct, assumptions=ASSUME, trusted_base=vlib.TRUSTED_BASE,
        extra={"input_distribution": kinds}, exhaustive=False)

def replay(ctx, path):
    rp = json.load(open(path))
    ops = rp.get("op_lines") or []
    if not ops: return run(ctx)
    return run(ctx, ops=ops)
