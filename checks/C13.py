"""C13 -- all ways of reading one file agree (DESIGN.md section 5, C13)

Files of every variant the BMP / PNM / TARGA readers accept are produced by checks/C13_gen.py (GIL can write only a
few of them).  The real headers read each file in every way the property names; the Lean model (Model/Codec.lean +
Model/C13.lean) predicts every observation; the judge evaluates the property's Spec on the real output:
sub-rectangle = crop of the full read, the three devices agree, read_view / any_image / scanline reader = read_image,
read_and_convert = color_convert of the native read, read_image_info = dimensions, a too small view is rejected,
nothing outside the destination view is written."""
import json, os
import vlib
import C13_gen as G
from codec_common import compile_many, run_routed, correspond_with, IO_LIBS, hexbytes

SEL = {"bmp": 1, "bmprle": 1, "bmprlef": 1, "pnm": 2, "targa": 3}

def rects(w, h):
    return [(x, y, dx, dy) for x in range(w) for dx in range(1, w - x + 1) for y in range(h) for dy in range(1, h - y + 1)]

def variants(r, w, h):
    """(name, fmt, native dst type, file bytes) for one image size; contents: every pixel distinct where the depth allows"""
    def rgb(a=False): return [[tuple(r.below(256) for _ in range(4 if a else 3)) for x in range(w)] for y in range(h)]
    def idx(n): return [[(x + w * y + r.below(2)) % n for x in range(w)] for y in range(h)]
    pal = [(r.below(256), r.below(256), r.below(256)) for _ in range(256)]
    runny = [[(x // 2 + y) % 3 for x in range(w)] for y in range(h)]          # rows with runs (for the RLE encoders)
    runs_rgba = [[(1 + x // 2, 2, 3 + y, 200) for x in range(w)] for y in range(h)]
    runs_rgb = [[(v, 2 * v, 255 - v) for v in row] for row in runny]
    return [
        ("bmp24", "bmp", "rgb8", G.bmp_true(rgb())),
        ("bmp24-topdown", "bmp", "rgb8", G.bmp_true(rgb(), top_down=True)),
        ("bmp32", "bmp", "rgba8", G.bmp_true(rgb(True), alpha=True)),
        ("bmp24-v4-gap", "bmp", "rgb8", G.bmp_true(rgb(), hs=108, gap=3)),
        ("bmp24-os2", "bmp", "rgb8", G.bmp_true(rgb(), hs=12)),
        ("bmp-pal1", "bmp", "rgba8", G.bmp_palette(idx(2), pal, 1)),
        ("bmp-pal4", "bmp", "rgba8", G.bmp_palette(idx(16), pal, 4)),
        ("bmp-pal8", "bmp", "rgba8", G.bmp_palette(idx(256), pal, 8)),
        ("bmp-pal8-7colors", "bmp", "rgba8", G.bmp_palette(idx(7), pal, 8, ncolors=7)),
        ("bmp-pal4-os2", "bmp", "rgb8", G.bmp_palette(idx(16), pal, 4, hs=12)),
        ("bmp-pal1-os2", "bmp", "rgb8", G.bmp_palette(idx(2), pal, 1, hs=12)),
        ("bmp-rle8", "bmprle", "rgb8", G.bmp_rle(idx(256), pal, 8, r)),
        ("bmp-rle8-runs", "bmprle", "rgb8", G.bmp_rle(runny, pal, 8, r, mode="enc", eol_last=False)),
        ("bmp-rle4", "bmprle", "rgb8", G.bmp_rle(idx(16), pal, 4, r)),
        ("bmp-rle4-runs", "bmprle", "rgb8", G.bmp_rle(runny, pal, 4, r, mode="enc")),
        ("bmp16-555", "bmp", "rgb8", G.bmp_16(rgb(), "555")),
        ("bmp15-555", "bmp", "rgb8", G.bmp_16(rgb(), "555-15")),
        ("bmp16-565", "bmp", "rgb8", G.bmp_16(rgb(), "565")),
        ("pnm-p5", "pnm", "gray8", G.pnm_bin(5, idx(256))),
        ("pnm-p6", "pnm", "rgb8", G.pnm_bin(6, rgb(), style=1)),
        ("pnm-p4", "pnm", "gray1", G.pnm_bin(4, idx(2), style=2)),
        ("pnm-p1", "pnm", "gray8", G.pnm_ascii(1, idx(2))),
        ("pnm-p2", "pnm", "gray8", G.pnm_ascii(2, idx(256), style=2)),
        ("pnm-p2-max15", "pnm", "gray8", G.pnm_ascii(2, idx(16), maxv=15, style=1, sep="\n")),
        ("pnm-p3", "pnm", "rgb8", G.pnm_ascii(3, rgb(), style=1, sep="\t")),
        ("tga24", "targa", "rgb8", G.targa(rgb())),
        ("tga32-top-id", "targa", "rgba8", G.targa(rgb(True), alpha=True, top_origin=True, idlen=5)),
        ("tga24-top", "targa", "rgb8", G.targa(rgb(), top_origin=True)),
        ("tga24-rle", "targa", "rgb8", G.targa(rgb(), rle=True, r=r)),
        ("tga32-rle-top", "targa", "rgba8", G.targa(runs_rgba, alpha=True, rle=True, top_origin=True, r=r, mode="runs", cross_rows=True)),
        ("tga24-rle-id", "targa", "rgb8", G.targa(runs_rgb, rle=True, idlen=3, r=r)),
    ]

KINDS = ["gray8", "rgb8", "rgba8"]

def skip_patterns(r, h, exhaustive):
    """patterns over d (*it; ++it), D (*it; *it; ++it), p (*it++), s (++it: the row is skipped without being dereferenced), at most h letters"""
    if exhaustive and h <= 5:
        ps = ["".join("ds"[(m >> i) & 1] for i in range(h)) for m in range(1 << h)]
    elif exhaustive is None:      # readers that seek to every row: a few patterns per file
        return [p for p in dict.fromkeys(["s" * (h - 1) + "d", "".join("sd"[i % 2] for i in range(h)), "".join("dDsp"[r.below(4)] for _ in range(h)), "s" * h]) if p]
    else:
        ps = ["d" * h, "d", "s" * (h - 1) + "d", "s" * h, "d" + "s" * (h - 1)]
        ps += ["".join("d" if i % k == o else "s" for i in range(h)) for k in (2, 3) for o in range(k)]
        ps += ["".join("ds"[r.below(2)] for _ in range(h)) for _ in range(3)]
    n = 1 + r.below(h)
    ps += ["".join("dDsp"[r.below(4)] for _ in range(h)), "".join("dDsp"[r.below(4)] for _ in range(n)), "s" * (n - 1) + "D", "s" * (n - 1) + "p"]
    out = []
    for p in ps:
        if p and p not in out: out.append(p)
    return out

def gen_ops(ctx):
    r, ops, tags = ctx.rng, [], {}
    th = ctx.thorough()
    hi = 7 if th else 5
    for w in range(1, hi + 1):
        for h in range(1, hi + 1):
            for name, fmt, dst, f in variants(r, w, h):
                hx = f.hex()
                def add(op): ops.append(op); tags[name] = tags.get(name, 0) + 1
                add("crop %s %s 0 0 0 0 %s" % (fmt, dst, hx))                 # default settings through every device
                rs = rects(w, h)
                if fmt == "bmprle" and max(w, h) > (5 if th else 3):
                    # the RLE reader's sub-rectangle path is a recorded finding and every op costs a fork of the sanitized harness:
                    # all rectangles of the small images, a seeded sample of the larger ones
                    rs = [r.choice(rs) for _ in range(6)]
                for (x, y, dx, dy) in rs:                                     # EVERY sub-rectangle
                    add("crop %s %s %d %d %d %d %s" % (fmt, dst, x, y, dx, dy, hx))
                add("paths %s %s %s" % (fmt, dst, hx))
                # the scanline iterator with rows skipped: every d/s pattern for the stream readers (pnm), a selection for the seeking ones
                for p in skip_patterns(r, h, True if fmt == "pnm" else None):
                    add("skips %s %s %s %s" % (fmt, dst, p, hx))
                if not dst.startswith("gray1"):
                    rs = rects(w, h); pick = [(0, 0, 0, 0), rs[0], rs[-1], r.choice(rs), r.choice(rs)]
                    if fmt == "bmprle": pick = [(0, 0, 0, 0)]      # rows the RLE reader leaves unwritten would show uninitialised memory
                    for k in KINDS:
                        for (x, y, dx, dy) in pick[: (5 if th else 3)]:
                            add("conv %s %s %s %d %d %d %d %s" % (fmt, dst, k, x, y, dx, dy, hx))
                # a view smaller than the region (in x, in y, in both), full file and a sub-rectangle
                if w > 1: add("small %s %s %d %d 0 0 0 0 %s" % (fmt, dst, w - 1, h, hx))
                if h > 1: add("small %s %s %d %d 0 0 0 0 %s" % (fmt, dst, w, h - 1, hx))
                if w > 2 and h > 1: add("small %s %s %d %d 1 1 %d %d %s" % (fmt, dst, w - 2, h - 1, w - 1, h - 1, hx))
                if w > 1 and h > 2: add("small %s %s %d %d 0 0 %d %d %s" % (fmt, dst, w - 1, h - 2, w - 1, h - 1, hx))
    for (w, h) in [(3, 9), (7, 12)] + ([(2, 31)] if th else []):      # taller files: skip patterns only
        for name, fmt, dst, f in variants(r, w, h):
            for p in skip_patterns(r, h, False):
                ops.append("skips %s %s %s %s" % (fmt, dst, p, f.hex())); tags[name] = tags.get(name, 0) + 1
    if th:      # a sample of the sub-rectangles of larger images
        for (w, h) in [(9, 9), (8, 13), (17, 6), (33, 3)]:
            for name, fmt, dst, f in variants(r, w, h):
                hx = f.hex(); rs = rects(w, h)
                for _ in range(150):
                    x, y, dx, dy = r.choice(rs); ops.append("crop %s %s %d %d %d %d %s" % (fmt, dst, x, y, dx, dy, hx)); tags[name] = tags.get(name, 0) + 1
                ops.append("paths %s %s %s" % (fmt, dst, hx))
    return ops, tags

def mono_variant(ctx):
    """does the tree under test carry the proposed pnm gray1 fix (reader / scanline reader mirror instead of swapping half bytes)?"""
    def src(rel):
        try: return open(os.path.join(ctx.include, "boost/gil/extension/io/pnm/detail", rel)).read()
        except OSError: return ""
    r, sc = src("read.hpp"), src("scanline_read.hpp")
    rf = "swap_half_bytes" not in r[r.find("void read_bin_data"):]
    sf = "_swap_half_bytes( dst" not in sc
    return "gray1" + ("-" if rf or sf else "") + ("r" if rf else "") + ("s" if sf else "")

# formats decoded by external libraries: (format variant, pixel, channels, bytes per channel, max value, harness selector)
EXT = [("png", "gray8", 1, 1, 255, 1), ("png", "rgb8", 3, 1, 255, 1), ("png", "rgba8", 4, 1, 255, 1), ("png", "gray16", 1, 2, 65535, 1),
       ("png", "gray1", 1, 1, 1, 1), ("png", "gray4", 1, 1, 15, 1),
       ("png-adam7", "gray8", 1, 1, 255, 1), ("png-adam7", "rgb8", 3, 1, 255, 1), ("png-adam7", "rgba8", 4, 1, 255, 1),
       ("tiff", "gray8", 1, 1, 255, 2), ("tiff", "rgb8", 3, 1, 255, 2), ("tiff-lzw", "rgb8", 3, 1, 255, 2), ("tiff-tile16", "gray8", 1, 1, 255, 2),
       ("tiff-tile16", "rgb8", 3, 1, 255, 2), ("tiff-tile16-deflate", "rgb8", 3, 1, 255, 2),
       ("tiff", "gray1", 1, 1, 1, 3), ("tiff", "gray4", 1, 1, 15, 3), ("tiff-tile16", "gray1", 1, 1, 1, 3), ("tiff-tile16", "gray4", 1, 1, 15, 3),
       ("jpeg", "gray8", 1, 1, 255, 4), ("jpeg", "rgb8", 3, 1, 255, 4)]

def gen_ext(ctx):
    r, ops = ctx.rng, []
    th = ctx.thorough()
    hi = 5 if th else 4
    big = [(9, 9), (17, 5), (20, 18)] + ([(33, 17), (40, 35)] if th else [])
    for fmt, pix, nch, cb, maxv, sel in EXT:
        def src(w, h): return hexbytes(b"".join(((1 + x + w * y + 40 * c + r.below(3)) % (maxv + 1)).to_bytes(cb, "big") for y in range(h) for x in range(w) for c in range(nch)))
        head = "%s %s %d" % (fmt, pix, nch * cb)
        for w in range(1, hi + 1):
            for h in range(1, hi + 1):
                hx = src(w, h)
                ops.append("xcrop %s %d %d 0 0 0 0 %s" % (head, w, h, hx))
                for (x, y, dx, dy) in rects(w, h): ops.append("xcrop %s %d %d %d %d %d %d %s" % (head, w, h, x, y, dx, dy, hx))
                ops.append("xpaths %s %d %d %s" % (head, w, h, hx))
                if w > 1: ops.append("xsmall %s %d %d %d %d 0 0 0 0 %s" % (head, w, h, w - 1, h, hx))
                if h > 1: ops.append("xsmall %s %d %d %d %d 0 0 %d %d %s" % (head, w, h, w, h - 1, w, h, hx))
        for (w, h) in big:        # tile edges, Adam7 passes, several strips: a seeded sample of the sub-rectangles
            hx = src(w, h); rs = rects(w, h)
            ops.append("xpaths %s %d %d %s" % (head, w, h, hx))
            for _ in range(40 if th else 12):
                x, y, dx, dy = r.choice(rs); ops.append("xcrop %s %d %d %d %d %d %d %s" % (head, w, h, x, y, dx, dy, hx))
        if pix not in ("gray1", "gray4"):       # scanline iterator with skipped rows (byte pixels: the row buffer has the image's pixel layout)
            for (w, h) in [(1, 1), (2, 3), (3, 5), (4, 4), (9, 9), (17, 5)] + ([(20, 18)] if th else []):
                hx = src(w, h)
                for p in skip_patterns(r, h, h <= 3):
                    ops.append("xskips %s %d %d %s %s" % (head, w, h, p, hx))
        if pix in ("gray8", "rgb8", "rgba8"):
            for (w, h) in [(1, 1), (2, 1), (3, 2), (4, 4)]:
                hx = src(w, h); rs = rects(w, h)
                for k in KINDS:
                    for (x, y, dx, dy) in [(0, 0, 0, 0), rs[-1], r.choice(rs)]:
                        ops.append("xconv %s %d %d %s %d %d %d %d %s" % (head, w, h, k, x, y, dx, dy, hx))
    # jpeg: decoding is deterministic, so the convert clause is exact there too: colourful Y'CbCr files (chroma subsampling, saturated
    # colours) into gray / 16-bit destinations, full image and sub-rectangles, against color_convert of the native rgb8 read
    for (w, h) in [(8, 8), (17, 9), (33, 20)] + ([(40, 35), (64, 17)] if th else []):
        hx = hexbytes(bytes(r.below(256) for _ in range(w * h * 3))); rs = rects(w, h)
        for k in ("gray8", "gray16", "rgb16", "rgb8", "rgba8"):
            for (x, y, dx, dy) in [(0, 0, 0, 0), r.choice(rs), r.choice(rs)]:
                ops.append("xconv jpeg rgb8 3 %d %d %s %d %d %d %d %s" % (w, h, k, x, y, dx, dy, hx))
        hg = hexbytes(bytes(r.below(256) for _ in range(w * h)))
        for k in ("gray16", "rgb16", "rgb8"):
            ops.append("xconv jpeg gray8 1 %d %d %s 0 0 0 0 %s" % (w, h, k, hg))
    return ops

def route(op):
    f = op.split()[1]
    if op[0] == "x": return "x%d" % next(s for (fm, px, n, cb, mv, s) in EXT if fm == f and px == op.split()[2])
    return "h1r" if f == "bmprle" else "h%d" % SEL[f]

def specs():
    return [dict(key="h%d" % n, src="harness/C13/main.cpp", sel=n) for n in (1, 2, 3)] + \
           [dict(key="x%d" % n, src="harness/C13/main_ext.cpp", sel=n, libs=IO_LIBS) for n in (1, 2, 3, 4)]

def nontrivial(op):
    w = op.split()
    if w[0] == "xcrop": return w[6:10] != ["0", "0", "0", "0"]
    if w[0] == "skips": return w[3] != "d" * len(w[3])
    if w[0] == "xskips": return w[6] != "d" * len(w[6])
    return w[0] != "crop" or w[3:7] != ["0", "0", "0", "0"]

ASSUME = [
    "PNG / TIFF / JPEG: external codecs, no byte-level model and no theorem; files written by the real writers (Adam7 png by libpng) are read in every way and the Spec is judged on the real output only: partial (external codec)",
    "valid files only: what the readers do on truncated / malformed input is C11's subject (the model here reads absent bytes as 0)",
    "the three devices are modelled by one byte-string device; that file name, FILE* and std::istream agree is established by the correspondence run on every generated input",
    "read_view / read_image / any_image / read_and_convert_view share the model's decoder; their agreement and the frame condition (nothing outside the destination view is written: canary frames) are established by the correspondence run",
]

def run(ctx, ops=None):
    try:
        import C13_syms
        vlib.regen(ctx, C13_syms.NAMESPACE, C13_syms.SYMS)
    except ImportError:
        pass
    obligations, discharged = vlib.standard_proof_steps(ctx)
    ctx.log("proof steps done")
    bins = compile_many(ctx, specs())
    ctx.log("harnesses compiled")
    if "h1" in bins: bins["h1r"] = bins["h1"]      # same binary, own process: the forking RLE ops run beside the others
    tags = {}
    given = ops
    if ops is None: ops, tags = gen_ops(ctx)
    else: ops = [o for o in given if o[0] != "x"]
    try:
        any_fixed = "checked_bpp" in open(os.path.join(ctx.include, "boost/gil/extension/io/bmp/detail/read.hpp")).read()
    except OSError: any_fixed = False
    if any_fixed:
        ctx.notes.append("tree under test carries the proposed any_image format checker fix: model variant pathsA")
        ops = [("pathsA" + o[5:]) if o.startswith("paths ") else o for o in ops]
    try:
        rle_fixed = "Buf_type buf( this->_settings._dim.x )" not in open(os.path.join(ctx.include, "boost/gil/extension/io/bmp/detail/read.hpp")).read()
    except OSError: rle_fixed = False
    if rle_fixed:
        ctx.notes.append("tree under test carries the proposed RLE sub-rectangle fix: model variant bmprlef")
        ops = [o.replace(" bmprle ", " bmprlef ", 1) for o in ops]
    mono = mono_variant(ctx)
    if mono != "gray1":
        ctx.notes.append("tree under test carries the proposed pnm gray1 fix: model variant %s" % mono)
        ops = [o.replace(" pnm gray1 ", " pnm %s " % mono, 1) for o in ops]
    impl = run_routed(ctx, bins, route, ops, args=(ctx.scratch,))
    ctx.log("native harness run done")
    impl, model = correspond_with(ctx, "drv_C13", ops, impl)
    ctx.log("native: %d ops" % len(ops))
    # PNG / TIFF / JPEG: files written by the real writers (Adam7 png by libpng directly), judged only
    xops = [o for o in (given or []) if o[0] == "x"] if given is not None else gen_ext(ctx)
    ximpl = []
    if xops:
        ximpl = run_routed(ctx, bins, route, xops, args=(ctx.scratch,))
        keep = [i for i, o in enumerate(ximpl) if o != "codec-not-configured"]
        xops, ximpl = [xops[i] for i in keep], [ximpl[i] for i in keep]
        correspond_with(ctx, "drv_C13", xops, ximpl, label="ext", model=False)
        ctx.log("ext: %d ops" % len(xops))
    distinct = len({o for o in ops + xops if nontrivial(o)})
    samples = []
    if ops:
        for i in (0, len(ops) // 3, 2 * len(ops) // 3, len(ops) - 1):
            samples.append({"op": ops[i][:160], "impl": impl[i][:200], "model": model[i][:200]})
    if xops:
        for i in (0, len(xops) - 1):
            samples.append({"op": xops[i][:160], "impl": ximpl[i][:200], "model": "(no model prediction: judged only)"})
    kinds = {}
    for o in ops + xops: kinds[o.split()[0]] = kinds.get(o.split()[0], 0) + 1
    hi = 7 if ctx.thorough() else 5
    return vlib.finish(ctx, "proof", obligations, discharged,
        rule="files: %d variants (bmp 24/32 bottom-up, negative height, V4 header, OS/2 header, 1/4/8-bit palettes, RLE4/RLE8, 15/16-bit incl. bit fields; pnm P1..P6; targa raw/RLE x both origins x 24/32 x id field) "
             "for every w,h in 1..%d. crop: EVERY sub-rectangle of every file through file name, FILE* and std::istream, judged against the crop of the full read; paths: read_image, read_view (canary frame), any_image, "
             "scanline reader, read_image_info; skips: the scanline iterator driven by patterns of dereference / skip steps (pnm: every d/s pattern up to height 5; every other format incl. png / tiff / jpeg: first / last / every k-th / random subsets, double dereference, *it++, std::advance over runs), every row handed out judged against that row of read_image; conv: read_and_convert_image / _view into gray8, rgb8, rgba8 against color_convert of the native read; small: read_view into a too small view. "
             "non-trivial = every op except the default-settings read and the skips patterns that dereference every row exactly once (distinct op lines counted)" % (len(variants(vlib.SplitMix64(1), 2, 2)), hi),
        samples=samples, distinct_nontrivial=distinct, assumptions=ASSUME, trusted_base=vlib.TRUSTED_BASE,
        extra={"ops_by_kind": kinds, "ops_by_variant": tags, "known_finding_inputs": ctx.cov.get("known_finding_inputs", {}),
               "exhaustive_domains": ["every sub-rectangle of every w x h image, w,h in 1..%d, for every file variant" % hi],
               "open_statements": ["C13_convert for palette / RLE BMP (false on the current tree: C13_bmp_palette_convert_witness)",
                                   "C13_crop for RLE BMP with the reader before 76f86d6 (false: C13_bmp_rle_crop_witness; the fixed reader: C13_crop_bmp_rle_fixed)",
                                   "PNG/TIFF/JPEG: judged only (external codec); Adam7 PNG violates the crop clause (known finding)",
                                   "devices agree / read_view = read_image / any_image / frame condition: correspondence only"]},
        exhaustive=False)

def replay(ctx, path):
    rp = json.load(open(path))
    ops = rp.get("op_lines") or []
    if not ops: return run(ctx)
    return run(ctx, ops=ops)
