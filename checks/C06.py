"""C06 -- channel_convert is the order-preserving linear range map with exact end points (DESIGN.md section 5, C06)"""
import json, struct
import vlib, parcorr, C06_syms

INT = {"u8": (0, 255), "i8": (-128, 127), "u16": (0, 65535), "i16": (-32768, 32767),
       "u32": (0, 2**32 - 1), "i32": (-2**31, 2**31 - 1)}
for n in range(1, 17): INT["p%d" % n] = (0, 2**n - 1)
REFS = {"r565r": 5, "r565g": 6, "r565b": 5, "rd3": 3, "rd7": 7}       # packed channel references (bit width)
for k, n in REFS.items(): INT[k] = (0, 2**n - 1)
# index of each type in harness/C06/main.cpp (decides which translation unit converts FROM it)
ORDER = ["u8", "u16", "u32", "i8", "i16", "i32", "f32"] + ["p%d" % n for n in range(1, 17)] + list(REFS)
NGROUPS = 8
CHUNK = 4096
ONE = 0x3f800000     # bit pattern of 1.0f

def f32bits(x): return struct.unpack("<I", struct.pack("<f", x))[0]

def enum_ops(S, D, lo, hi):
    """complete enumeration of [lo,hi] in chunks that overlap by one value (so monotonicity is checked across chunks)"""
    out, a = [], lo
    while True:
        n = min(CHUNK + 1, hi - a + 1)
        out.append("conv %s %s %d %d 1" % (S, D, a, n))
        if a + n - 1 >= hi: break
        a += n - 1
    return out

def strat_ops(r, S, D, lo, hi, dmax, th):
    """stratified windows of a 2^32-value source range (integers, or float32 bit patterns lo..hi)"""
    out, size = [], hi - lo + 1
    w = 2048
    out.append("conv %s %s %d %d 1" % (S, D, lo, w)); out.append("conv %s %s %d %d 1" % (S, D, hi - w + 1, w))
    out.append("conv %s %s %d %d 1" % (S, D, lo + size // 2 - w // 2, w))
    for _ in range(6 if th else 2):                       # arithmetic progressions across the whole range
        n = 2048; step = (size - 1) // n; a = lo + r.below(step)
        while a + (n - 1) * step > hi: n -= 1
        out.append("conv %s %s %d %d %d" % (S, D, a, n, step))
    for _ in range(64 if th else 12):                     # random windows of consecutive values
        a = r.range(lo, hi - 63); out.append("conv %s %s %d 64 1" % (S, D, a))
    return out

def float_boundary_ops(r, D, dmax, th):
    """float32 sources around the rounding thresholds (k+0.5)/dmax and the levels k/dmax: 9 consecutive bit patterns each"""
    out, ks = [], {0, 1, 2, dmax // 2, dmax - 2, dmax - 1, dmax}
    for _ in range(48 if th else 10): ks.add(r.below(dmax + 1))
    for k in sorted(ks):
        for x in (k / dmax, (k + 0.5) / dmax):
            if 0.0 < x < 1.0:
                b = f32bits(x); out.append("conv f32 %s %d 9 1" % (D, min(max(0, b - 4), ONE - 8)))
    return out

def gen_ops(ctx):
    r, th, ops = ctx.rng, ctx.thorough(), []
    dsts = ORDER
    for S in ORDER:
        for D in dsts:
            dmax = (INT[D][1] - INT[D][0]) if D != "f32" else 2**24
            if S == "f32":
                ops += strat_ops(r, S, D, 0, ONE, dmax, th)
                if D != "f32": ops += float_boundary_ops(r, D, dmax, th)
            elif S in ("u32", "i32"):
                lo, hi = INT[S]
                ops += strat_ops(r, S, D, lo, hi, dmax, th)
                # windows around the pre-images of destination level boundaries
                for _ in range(32 if th else 6):
                    k = r.below(dmax + 1); c = lo + (k * (hi - lo)) // max(1, dmax)
                    a = min(max(lo, c - 16), hi - 32); ops.append("conv %s %s %d 33 1" % (S, D, a))
            else:
                lo, hi = INT[S]
                ops += enum_ops(S, D, lo, hi)
    return ops

def nontrivial(op):
    w = op.split()
    return w[1] != w[2]          # a conversion between two different channel models

ASSUME = [
    "non-divisible down-conversions (double arithmetic) and the float32 paths: partial (float) RELATIVE TO FloatSpec -- proved for every rounding function satisfying "
    "FloatSpec (Props/C06Float.lean, C06_float_*); trusted: the target's binary32/binary64 arithmetic is such a rounding (eps = 2^-24 / 2^-53) and the code performs the modelled "
    "operation sequence (executable Float/Float32 model compared bit for bit; abstract model with the genuine binary32/binary64 instance evaluated by the Lean kernel on sampled conversions); "
    "uint32_t <-> float32_t special converters and float32 <-> signed pairs: decided on the real code's output by the Spec only",
    "channel models outside {u8,u16,u32,i8,i16,i32,float32_t, packed values 1..16 bits, packed references} (e.g. packed_channel_value<17..64>, double channels) are outside the claim",
    "signed overflow does not occur in the translated kernels (checked by UBSan in the harness)",
]

def group_of(op):
    t = op.split()[1]
    return ORDER.index(t) % NGROUPS if t in ORDER else 0

def shrink(ctx, bins, f):
    """reduce a failing range op to the first single source value (or adjacent pair, for monotonicity) that fails"""
    w = f["op"].split()
    if len(w) != 6 or int(w[4]) <= 1: return None
    s0, n, step = int(w[3]), int(w[4]), int(w[5])
    binary = bins[group_of(f["op"])][0]
    for width in (1, 2):
        cand = ["conv %s %s %d %d %d" % (w[1], w[2], s0 + i * step, width, step) for i in range(n - width + 1)]
        impl = vlib.run_harness(ctx, binary, cand)
        model = vlib.run_driver(ctx, "drv_C06", "model", cand)
        verd = vlib.run_driver(ctx, "drv_C06", "judge", [o + "\t" + r for o, r in zip(cand, impl)])
        for o, a, b, v in zip(cand, impl, model, verd):
            if v != "ok": return {"op": o, "impl": a, "model": b, "clause": v}
    return None

UNSIGNED16 = ["u8", "u16"] + ["p%d" % n for n in range(1, 17)] + list(REFS)

def abstract_tie(ctx, ops, impl):
    """tie of the ABSTRACT float models of Props/C06Float (Lemmas/C06Float: fromF, toF, downNondivF) to the real code:
    instantiated with the genuine IEEE roundings FloatSpec.binary32 / binary64 and evaluated by the Lean kernel, they must
    return what channel_convert returned, on a seeded sample of the float-path conversions of this run"""
    r, th = ctx.rng, ctx.thorough()
    kinds = {"fromF": [], "toF": [], "down": []}
    for o, obs in zip(ops, impl):
        w = o.split()
        if len(w) != 6 or "|" not in obs: continue
        S, D = w[1], w[2]
        if S == "f32" and D in UNSIGNED16: kinds["fromF"].append((o, obs))
        elif D == "f32" and S in UNSIGNED16: kinds["toF"].append((o, obs))
        elif S in UNSIGNED16 + ["u32"] and D in UNSIGNED16 + ["u32"] and INT[S][1] > INT[D][1] and INT[S][1] % INT[D][1] != 0:
            kinds["down"].append((o, obs))
    per_kind = 240 if th else 60
    claims = {"ℤ": [], "ℚ": []}
    for kind, cand in kinds.items():
        if not cand: continue
        for _ in range(per_kind):
            o, obs = cand[r.below(len(cand))]
            w = o.split(); S, D, s0, n, step = w[1], w[2], int(w[3]), int(w[4]), int(w[5])
            rs = obs.split("|")[0].split()
            if len(rs) != n: continue
            try: vals = [int(x) for x in rs]
            except ValueError: continue
            for i in {0, n - 1, r.below(n), r.below(n)}:
                s = s0 + i * step
                if kind == "fromF":
                    claims["ℤ"].append(("fromF FloatSpec.binary32 %d %s" % (INT[D][1], vlib.f32_to_rat(s)), str(vals[i]), o + " @%d" % s))
                elif kind == "toF":
                    claims["ℚ"].append(("toF FloatSpec.binary32 %d %d" % (INT[S][1], s), vlib.f32_to_rat(vals[i]), o + " @%d" % s))
                else:
                    claims["ℤ"].append(("downNondivF FloatSpec.binary64 %d %d %d" % (INT[S][1], INT[D][1], s), str(vals[i]), o + " @%d" % s))
    for typ, cl in claims.items():
        cl = list({c[0]: c for c in cl}.values())
        vlib.kernel_tie(ctx, "C06Float-" + ("int" if typ == "ℤ" else "rat"), ["GilVerif.Props.C06Float"],
                        ["GilVerif", "GilVerif.Lemmas.C06Float"], typ, cl)

def run(ctx, ops=None):
    vlib.regen(ctx, C06_syms.NAMESPACE, C06_syms.SYMS)
    obligations, discharged = vlib.standard_proof_steps(ctx, extra_props=["GilVerif.Props.C06Float"])
    bins = parcorr.compile_parallel(ctx, [dict(src_rel="harness/C06/main.cpp", name="C06_g%d" % g,
                                               defines=["C06_GROUP=%d" % g, "C06_NGROUPS=%d" % NGROUPS]) for g in range(NGROUPS)])
    samples, distinct, values = [], 0, 0
    bad = [e for b, e in bins if b is None]
    if bad:
        ctx.broken.append(("harness", "compile", bad[0][-1500:])); ctx.log("harness does not compile:\n" + bad[0][-1500:])
    else:
        ops = ops or gen_ops(ctx)
        by_group = {}
        for o in ops: by_group.setdefault(group_of(o), []).append(o)
        jobs = []
        for g in sorted(by_group): jobs += parcorr.chunks(bins[g][0], by_group[g], 160)
        ops, impl, model = parcorr.correspond_parallel(ctx, "drv_C06", jobs)
        if discharged == obligations: abstract_tie(ctx, ops, impl)
        if ctx.failures:
            # prefer a packed -> built-in failure (the shape of the historical defect) and shrink it to one value
            ctx.failures.sort(key=lambda f: (not (f["op"].split()[1].startswith("p") and f["op"].split()[2] in ("u8", "u16")), ))
            small = shrink(ctx, bins, ctx.failures[0])
            if small: ctx.failures.insert(0, small)
        distinct = len({o for o in ops if nontrivial(o)})
        values = sum(int(o.split()[4]) if len(o.split()) == 6 else 1 for o in ops)
        pairs = {(o.split()[1], o.split()[2]) for o in ops}
        ctx.cov["values_judged"] = values; ctx.cov["type_pairs"] = len(pairs)
        for i in (0, len(ops) // 3, 2 * len(ops) // 3, len(ops) - 1):
            samples.append({"op": ops[i][:120], "impl": impl[i][:160], "model": model[i][:160]})
    return vlib.finish(ctx, "proof", obligations, discharged,
        rule="op lines `conv S D s0 n step`: every ordered pair of the 28 channel models (u8 u16 u32 i8 i16 i32 f32, packed values 1..16 bits, 5 packed references); "
             "complete enumeration of every source value for every source of at most 16 bits, stratified windows/progressions/boundary windows for 32-bit and float32 sources; "
             "non-trivial = source and destination models differ (distinct op lines counted)",
        samples=samples, distinct_nontrivial=distinct, assumptions=ASSUME, trusted_base=vlib.TRUSTED_BASE,
        extra={"values_judged": values, "type_pairs": ctx.cov.get("type_pairs", 0), "kernel_tie": ctx.cov.get("kernel_tie"),
               "exhaustive_domains": ["every source value of u8, i8, u16, i16, packed 1..16, packed references x every destination model"]},
        exhaustive=False)

def replay(ctx, path):
    rp = json.load(open(path))
    ops = rp.get("op_lines") or []
    if not ops: return run(ctx)
    return run(ctx, ops=ops)
