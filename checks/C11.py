"""C11 -- reading any byte sequence terminates safely (DESIGN.md section 5, C11)

Lean: ub-tracking models of the BMP / PNM / TARGA decoders (Model/C11.lean), theorems in Props/C11.lean.
Correspondence: harness/C11/main.cpp runs the real readers (read_image_info, read_image, read_view,
read_and_convert_image, scanline reader; file name / FILE* / std::ifstream) under ASan+UBSan, one forked child per
input with a watchdog; drv_C11 predicts the same observation; the judge is the property's Spec."""
import json, os, re, subprocess, concurrent.futures as cf
import vlib, C11_gen as G

ENTRIES = ["info", "image", "view", "conv", "scan"]
DEVS = ["name", "file", "stream", "sstream"]
CONV_DST = {"bmp": "rgba8", "tga": "rgba8", "pnm": "rgb8"}

def mkop(fmt, entry, dev, dst, data, st=(0, 0, 0, 0), view=(0, 0)):
    return "%s %s %s %s %d %d %d %d %d %d %s" % (fmt, entry, dev, dst if entry in ("image", "view", "conv") else "-",
                                                st[0], st[1], st[2], st[3], view[0], view[1], data.hex() or "-")

class Plan:
    """assigns entry points / devices / settings to generated inputs so that every pair is covered evenly"""
    def __init__(self, r): self.r, self.k, self.ops, self.tags = r, 0, [], []
    def add(self, fmt, tag, data, native, dims, n_variants=3, full=False):
        r = self.r
        other = ({"rgb8": "gray8", "gray8": "rgb8", "gray1": "gray8"} if fmt == "pnm" else {"rgb8": "rgba8", "rgba8": "rgb8"})[native]
        combos = [(e, d) for e in ENTRIES for d in DEVS]
        picks = combos if full else [combos[(self.k + 7 * i) % len(combos)] for i in range(n_variants)]
        self.k += 1
        for (e, d) in picks:
            dst = native if e != "conv" else CONV_DST[fmt]
            if e in ("image", "view") and r.chance(1, 12): dst = other
            st, view = (0, 0, 0, 0), (0, 0)
            w, h = dims
            if e == "view":
                view = (w, h)
                c = r.below(10)
                if c == 0: view = (max(0, w - 1), h)
                elif c == 1: view = (w + 1, h + 2)
            if e in ("image", "view", "conv") and r.chance(1, 5):
                c = r.below(8)
                if c < 4 and w >= 1 and h >= 1:          # a sub-rectangle inside the image
                    x0 = r.below(w); y0 = r.below(h); st = (x0, y0, 1 + r.below(w - x0), 1 + r.below(h - y0))
                elif c == 4: st = (1, 0, w, h)            # one column beyond
                elif c == 5: st = (0, 1, w, h)            # one row beyond
                elif c == 6: st = (0, 0, w + 1 + r.below(3), h)
                else: st = (w + r.below(40), 0, 1, 1)
                if e == "view": view = (st[2], st[3])
            self.ops.append(mkop(fmt, e, d, dst, data, st, view)); self.tags.append("%s/%s" % (fmt, tag))

def gen_ops(ctx):
    r, th = ctx.rng, ctx.thorough()
    plan = Plan(r)
    # ---- the byte strings of the Lean witness theorems (Props/C11.lean), replayed on the real readers first
    for name, (fmt, entry, dev, dst, hx, st, view) in sorted(json.load(open(os.path.join(vlib.VERIF, "checks", "C11_witnesses.json"))).items()):
        plan.ops.append(mkop(fmt, entry, dev, dst, bytes.fromhex(hx), tuple(st), tuple(view))); plan.tags.append("witness/" + name)
    # ---- BMP
    seeds = G.bmp_seeds(r, th)
    for i, (tag, b, native, dims) in enumerate(seeds):
        plan.add("bmp", tag + ":valid", b, native, dims, full=(i % (8 if th else 16) == 0))
    for i, (tag, b, native, dims) in enumerate(seeds):
        if dims == (2, 2) or (th and dims in ((1, 1), (3, 2), (5, 1))): cuts = G.truncations(b, r, True)          # every truncation point
        elif th: cuts = G.truncations(b, r, False)
        else: cuts = [("trunc:%d" % k, b[:k]) for k in sorted({r.below(len(b)) for _ in range(6)})]
        for (m, x) in cuts:
            plan.add("bmp", tag + ":" + m, x, native, dims, n_variants=1)
    for i, (tag, b, native, dims) in enumerate(seeds):
        if not th and dims != (3, 2): continue
        for (m, x) in G.field_mutations(b, G.BMP_FIELDS, G.BMP_EXTRA):
            if not th and r.chance(3, 4) and not any(k in tag for k in ("bmp24", "bmp8p_h40_c0", "bmprle8", "bmp16bf565")): continue
            plan.add("bmp", tag + ":" + m, x, native, dims, n_variants=1)
    for (tag, b, native, dims) in seeds:
        if dims != (3, 2) or not any(k in tag for k in ("bmp24", "bmp32td", "bmp16", "bmp8p_h40_c0", "bmp4p_h40_c0")): continue
        for (m, x) in G.bmp_pair_mutations(b):
            for (e, d) in (("conv", "file"), ("scan", "name"), ("image", "stream"), ("view", "sstream")):
                dst = native if e != "conv" else "rgba8"
                plan.ops.append(mkop("bmp", e, d, dst, x, (0, 0, 0, 0), dims if e == "view" else (0, 0))); plan.tags.append("bmp/%s:%s" % (tag, m))
    for (tag, b, native, dims) in seeds:
        off = int.from_bytes(b[10:14], "little")
        start = 54 if ("p_h" in tag or "rle" in tag or "bf" in tag) else off      # palette / masks / run lengths
        for (m, x) in G.tail_corruptions(b, min(start, len(b) - 1), r, 3 if th else 1):
            plan.add("bmp", tag + ":" + m, x, native, dims, n_variants=1)
        for (m, x) in G.random_mutations(b, r, 6 if th else 3):
            plan.add("bmp", tag + ":" + m, x, native, dims, n_variants=1)
    # ---- PNM
    seeds = G.pnm_seeds(r, th)
    for i, (tag, b, native, dims) in enumerate(seeds):
        plan.add("pnm", tag + ":valid", b, native, dims, full=(i % (8 if th else 16) == 0))
    for i, (tag, b, native, dims) in enumerate(seeds):
        if dims == (2, 2) or (th and dims in ((1, 1), (3, 2), (5, 1))): cuts = G.truncations(b, r, True)
        elif th: cuts = G.truncations(b, r, False)
        else: cuts = [("trunc:%d" % k, b[:k]) for k in sorted({r.below(len(b)) for _ in range(6)})]
        for (m, x) in cuts: plan.add("pnm", tag + ":" + m, x, native, dims, n_variants=1)
    for i, (tag, b, native, dims) in enumerate(seeds):
        if not th and dims != (3, 2): continue
        for (m, x) in G.pnm_mutations(b, r, th): plan.add("pnm", tag + ":" + m, x, native, dims, n_variants=1)
    for (tag, b, native, dims) in seeds:
        start = min(len(b) - 1, 12)
        for (m, x) in G.tail_corruptions(b, start, r, 3 if th else 1): plan.add("pnm", tag + ":" + m, x, native, dims, n_variants=1)
        for (m, x) in G.random_mutations(b, r, 6 if th else 3): plan.add("pnm", tag + ":" + m, x, native, dims, n_variants=1)
    # ---- TARGA
    seeds = G.tga_seeds(r, th)
    for i, (tag, b, native, dims) in enumerate(seeds):
        plan.add("tga", tag + ":valid", b, native, dims, full=(i % (8 if th else 10) == 0))
    for i, (tag, b, native, dims) in enumerate(seeds):
        if dims == (2, 2) or (th and dims in ((1, 1), (3, 2), (5, 1))): cuts = G.truncations(b, r, True)
        elif th: cuts = G.truncations(b, r, False)
        else: cuts = [("trunc:%d" % k, b[:k]) for k in sorted({r.below(len(b)) for _ in range(8)})]
        for (m, x) in cuts: plan.add("tga", tag + ":" + m, x, native, dims, n_variants=1)
    for i, (tag, b, native, dims) in enumerate(seeds):
        if not th and dims != (3, 2): continue
        for (m, x) in G.field_mutations(b, G.TGA_FIELDS, G.TGA_EXTRA): plan.add("tga", tag + ":" + m, x, native, dims, n_variants=1)
    # huge declared dimensions with a small requested region (the destination allocation does not stop these)
    for (w, h) in ((65535, 65535), (46341, 46341), (30000, 30000), (65535, 2), (2, 65535), (16384, 2), (16385, 2)):
        for bpp in (24, 32):
            for rle in (False, True):
                b = G.tga_file(w, h, bpp, rle=rle, data=bytes([0x83, 1, 2, 3, 4][:1 + bpp // 8]))
                for (e, d) in (("image", "file"), ("conv", "stream"), ("view", "name")):
                    dst = "rgba8" if (e == "conv" or bpp == 32) else "rgb8"
                    plan.ops.append(mkop("tga", e, d, dst, b, (0, 0, 1, 1), (1, 1) if e == "view" else (0, 0))); plan.tags.append("tga/huge:%dx%d" % (w, h))
    for (tag, b, native, dims) in seeds:
        for (m, x) in G.tail_corruptions(b, min(18, len(b) - 1), r, 3 if th else 2): plan.add("tga", tag + ":" + m, x, native, dims, n_variants=1)
        for (m, x) in G.random_mutations(b, r, 6 if th else 4): plan.add("tga", tag + ":" + m, x, native, dims, n_variants=1)
    return plan.ops, plan.tags

# ------------------------------------------------------------------ running
def run_chunks(cmd, lines, jobs, env=None, timeout=7200):
    """feed `lines` to `jobs` copies of cmd (interleaved chunks), return outputs in order"""
    if not lines: return []
    jobs = max(1, min(jobs, len(lines) // 8 or 1))
    chunks = [lines[i::jobs] for i in range(jobs)]
    def one(ch):
        p = subprocess.run(cmd, input="\n".join(ch) + "\n", capture_output=True, text=True, timeout=timeout, env=env)
        out = p.stdout.split("\n")
        if out and out[-1] == "": out.pop()
        if len(out) != len(ch): raise RuntimeError("%s: %d lines for %d ops (rc=%d): %s" % (cmd[0], len(out), len(ch), p.returncode, p.stderr[-600:]))
        return [" ".join(x.split()) for x in out]
    with cf.ThreadPoolExecutor(jobs) as ex: res = list(ex.map(one, chunks))
    out = [None] * len(lines)
    for i, rch in enumerate(res): out[i::jobs] = rch
    return out

def same_observation(impl, model):
    # `nondet:` = the model says the outcome depends on uninitialised bytes (istream_device short read): any
    # implementation behaviour corresponds; it is judged by the Spec alone
    return impl == model or model.startswith("nondet:")

def correspond(ctx, binary, ops, label=""):
    hdir = os.path.join(ctx.scratch, "h"); os.makedirs(hdir, exist_ok=True)
    env = dict(os.environ); env.pop("ASAN_OPTIONS", None); env.pop("UBSAN_OPTIONS", None)
    impl = run_chunks([binary, hdir], ops, ctx.jobs, env=env)
    ctx.log("real readers done")
    drv = vlib.driver_path(ctx, "drv_C11")
    model = run_chunks([drv, "model"], ops, ctx.jobs)
    verdicts = run_chunks([drv, "judge"], [o + "\t" + a for o, a in zip(ops, impl)], ctx.jobs)
    ctx.log("model and judge done")
    known = vlib.load_known()
    ndiff = 0
    for op, a, b, v in zip(ops, impl, model, verdicts):
        same = same_observation(a, b)
        if v != "ok":
            f = {"op": op, "impl": a, "model": b, "clause": v}
            k = vlib.match_known(ctx.prop, f, known)
            if k is not None and same:
                hit = [x for x in ctx.known_hits if x["id"] == k["id"]]
                if hit: hit[0]["count"] = hit[0].get("count", 1) + 1
                else: ctx.known_hits.append({"id": k["id"], "what": k.get("what", ""), "example": f, "count": 1})
            else: ctx.failures.append(f)
        if not same:
            ndiff += 1
            if ndiff <= 5: ctx.log("correspondence differs%s: op=%s...\n    impl =%s\n    model=%s" % (" [" + label + "]" if label else "", op[:150], a[:200], b[:200]))
            if len([x for x in ctx.broken if x[0] == "correspondence"]) < 20: ctx.broken.append(("correspondence", op, "impl=%s | model=%s" % (a[:300], b[:300])))
    ctx.cov["evaluations"] = ctx.cov.get("evaluations", 0) + len(ops)
    ctx.cov["correspondence_diffs"] = ctx.cov.get("correspondence_diffs", 0) + ndiff
    return impl, model, verdicts

# ------------------------------------------------------------------ PNG / JPEG / TIFF: supporting evidence only
EXT_FORMATS = [("png", "rgb8"), ("png", "rgba8"), ("png", "gray8"), ("jpg", "rgb8"), ("jpg", "gray8"), ("tif", "rgb8"), ("tif", "rgba8"), ("tif", "gray8")]

def ext_evidence(ctx, binary):
    """the same mutation stream over files written by GIL's own writers; no model: judged by the Spec's
       no-ub / terminates clauses only (the codec libraries are not modelled); returns a summary dict"""
    r, th = ctx.rng, ctx.thorough()
    hdir = os.path.join(ctx.scratch, "hx"); os.makedirs(hdir, exist_ok=True)
    env = dict(os.environ); env.pop("ASAN_OPTIONS", None); env.pop("UBSAN_OPTIONS", None); env["C11_NO_EXT"] = "1"
    gens = ["gen %s %s %d %d %d" % (f, d, w, h, r.below(2 ** 32)) for (f, d) in EXT_FORMATS for (w, h) in ((1, 1), (5, 3), (16, 9))]
    out = run_chunks([binary, hdir], gens, 4, env=env)
    ops, tags = [], []
    for g, o in zip(gens, out):
        if not o.startswith("hex "): ctx.notes.append("ext: writer failed for %s: %s" % (g, o[:80])); continue
        _, f, d, w, h, _ = g.split(); b = bytes.fromhex(o[4:])
        devs = ["name", "stream"] if f == "tif" else ["name", "file", "stream"]
        muts = [("valid", b)] * len(devs) + G.truncations(b, r, False)[:: (1 if th else 3)] + G.random_mutations(b, r, 60 if th else 16) + \
               G.tail_corruptions(b, min(len(b) - 1, 24), r, 4 if th else 1)
        for k, (m, x) in enumerate(muts):
            e = "info" if k % 4 == 3 else "image"
            ops.append(mkop(f, e, devs[k % len(devs)], d, x)); tags.append("%s/%s" % (f, m))
    impl = run_chunks([binary, hdir], ops, ctx.jobs, env=env)
    dist, bad = {}, []
    for o, a in zip(ops, impl):
        w = o.split(); key = "%s/%s/%s" % (w[0], w[1], w[2]); c = obs_class(a)
        dist.setdefault(key, {}); dist[key][c] = dist[key].get(c, 0) + 1
        if a.startswith(("ub:", "assert@", "abort@", "crash:", "timeout", "harness")):
            f = {"op": o, "impl": a, "model": "(no model: external codec)", "clause": "fail no-undefined-behaviour [supporting evidence stream: " + w[0] + "]"}
            k = vlib.match_known(ctx.prop, f, vlib.load_known())
            if k is not None:
                if k["id"] not in [x["id"] for x in ctx.known_hits]: ctx.known_hits.append({"id": k["id"], "what": k.get("what", ""), "example": f, "count": 1})
            else: bad.append(f)
    ctx.failures.extend(bad)
    return {"label": "partial: PNG/JPEG/TIFF payload decoding is libpng/libjpeg/libtiff (not modelled); only GIL's glue is exercised, judged for sanitizer reports / assertion failures / timeouts",
            "files_written_by_gil": len(gens), "inputs": len(ops), "distribution": dist, "failures": len(bad)}

ASSUME = [
    "every single allocation above 64 KiB fails with std::bad_alloc in harness and model alike (declared sizes beyond that are explored only up to the allocation)",
    "std::istream is exercised as std::ifstream and std::istringstream (they differ in seeking beyond the end); file name and FILE* share file_stream_device",
    "sub-rectangle settings are explored with non-negative dimensions and offsets within 2 KiB of the row buffer (ASan red zone)",
    "a model answer `nondet:` (outcome depends on uninitialised bytes) would not be compared, only judged; none arises on the current tree (istream_device checks short reads since cdb7c21)",
]

def obs_class(a):
    w = a.split()
    if not w: return "none"
    if w[0] == "ok": return "ok" + ("/ext-differs" if w[-1] == "ext=differs" else "")
    return w[0].split("@")[0]

def run(ctx, ops=None):
    obligations, discharged = vlib.standard_proof_steps(ctx)
    with cf.ThreadPoolExecutor(2) as ex:      # the two harness builds in parallel
        fx = ex.submit(vlib.compile_harness, ctx, "harness/C11/main.cpp", "C11_ext", (), ["-lpng", "-ltiff", "-ltiffxx", "-ljpeg", "-lz"], True, "-O1", ["_GLIBCXX_ASSERTIONS", "C11_EXT"])
        binary, err = vlib.compile_harness(ctx, "harness/C11/main.cpp", defines=["_GLIBCXX_ASSERTIONS"])
        xbinary, xerr = fx.result()
    samples, distinct, dist, ext = [], 0, {}, None
    if binary is None:
        ctx.broken.append(("harness", "compile", err[-1500:])); ctx.log("harness does not compile:\n" + err[-1500:])
    else:
        tags = None
        if ops is None: ops, tags = gen_ops(ctx)
        ctx.log("%d ops" % len(ops))
        impl, model, verdicts = correspond(ctx, binary, ops)
        distinct = len({o for o, a in zip(ops, impl) if not a.startswith("ok ") or o.split()[1] != "info"})
        for o, a in zip(ops, impl):
            w = o.split(); key = "%s/%s/%s" % (w[0], w[1], w[2]); c = obs_class(a)
            dist.setdefault(key, {}); dist[key][c] = dist[key].get(c, 0) + 1
        for i in (0, len(ops) // 4, len(ops) // 2, 3 * len(ops) // 4, len(ops) - 1):
            samples.append({"op": ops[i][:160], "impl": impl[i][:160], "model": model[i][:160], "judge": verdicts[i][:160]})
        ctx.cov["nondet"] = sum(1 for b in model if b.startswith("nondet:"))
        if tags is not None:       # full run (not a replay): the supporting-evidence stream
            if xbinary is None: ctx.notes.append("ext harness does not compile (supporting evidence skipped): " + xerr[-300:])
            else:
                ext = ext_evidence(ctx, xbinary)
                ctx.log("supporting evidence png/jpeg/tiff: %d inputs, %d failures" % (ext["inputs"], ext["failures"]))
    return vlib.finish(ctx, "proof", obligations, discharged,
        rule="op = (format, entry point, device, destination type, settings, file bytes); files: valid files of every decoder variant, every/sampled "
             "truncation point, header field x boundary values, data-area corruptions, seeded multi-byte mutations; non-trivial = every op except a "
             "successful read_image_info (distinct op lines counted)",
        samples=samples, distinct_nontrivial=distinct, assumptions=ASSUME, trusted_base=vlib.TRUSTED_BASE + [
            "ASan/UBSan/_GLIBCXX_ASSERTIONS detect the out-of-range accesses the model names (red zone 2 KiB); the model's `nondet` answers are not compared"],
        extra={"input_distribution": dist, "model_nondet": ctx.cov.get("nondet", 0), "supporting_evidence_png_jpeg_tiff": ext,
               "known_finding_counts": {k["id"]: k.get("count", 1) for k in ctx.known_hits}})

def replay(ctx, path):
    rp = json.load(open(path))
    ops = rp.get("op_lines") or []
    if not ops: return run(ctx)
    return run(ctx, ops=ops)
